"""C01 - "a failure is never attached to a different job": a submission whose input iterable fails while the task feeder
is reading it.  Real code: Pool.apply_async/map_async/imap/imap_unordered, TaskHandler.body (its error path), result
handles; the feeder's turn is the real TaskHandler.body over the pool's task queue (World.feed)."""
import billiard.pool as bp
from harness.hbase import fail, tier, Prune, NDCode, CODEMAX, untraced, PART, NPART
from harness import world as W

KINDS_A = ('apply', 'map', 'imap', 'imapu')


class InputError(Exception):
    pass


def _bad_input(k):
    for j in range(k):
        yield 'b%d' % j
    raise InputError('cannot read the input of job B')


def _scenario(code, want):
    nd = NDCode(code)
    kind_a = KINDS_A[PART % 4] if NPART > 1 else KINDS_A[nd.draw(0, 3)]
    earlier = nd.draw(0, 1)            # jobs the pool has completed before A (A is the pool's first job, id 0, or not)
    k = nd.draw(0, 2)                  # items B's input yields before it fails
    kind_b = ('imap', 'imapu')[nd.draw(0, 1)]
    a_progress = nd.draw(0, 2)         # A: queued / accepted / finished-but-unread when B is fed
    w = W.World()
    with untraced():
        p = w.make_pool(2)
    for j in range(earlier):
        o = W.Observer(p.apply_async(W.val, ('e%d' % j,)), 'apply')
        w.feed()
        w.w_take(p._pool[0])
        w.w_done(p._pool[0])
        w.drain_results()
        if o.observe().outcomes != [(True, ('r', 'e%d' % j))]:
            raise Prune()
    if kind_a == 'apply':
        ha = p.apply_async(W.val, ('A',))
        exp_a = [(True, ('r', 'A'))]
    elif kind_a == 'map':
        ha = p.map_async(W.val, ['A'], chunksize=1)
        W.int_timeout(ha)
        exp_a = [(True, [('r', 'A')])]
    elif kind_a == 'imap':
        ha = p.imap(W.val, ['A'])
        exp_a = [(True, ('r', 'A'))]
    else:
        ha = p.imap_unordered(W.val, ['A'])
        exp_a = [(True, ('r', 'A'))]
    A = W.Observer(ha, kind_a)
    same_turn = a_progress == 0 and nd.flag()      # the feeder reads A's and B's submissions in one turn (both were queued when it woke up)
    if not same_turn:
        w.feed()
    wk = p._pool[0]
    if a_progress >= 1:
        w.w_take(wk)
        w.drain_results()
    if a_progress == 2:
        w.w_done(wk)
    hb = (p.imap if kind_b == 'imap' else p.imap_unordered)(W.val, _bad_input(k))
    B = W.Observer(hb, kind_b)
    try:
        w.feed()                       # the feeder reads B's input: it fails after k items
    except InputError:
        return fail('C01:feeder-thread-dies-on-a-failing-input')
    if want:
        return False
    # A is untouched by B's failure ...
    A.observe()
    if a_progress < 2 and A.outcomes:
        return fail('C01:failure-attached-to-a-different-job:' + kind_a + (':first-job-of-the-pool' if earlier == 0 else ''))
    # ... and runs to its own outcome
    for x in list(p._pool):
        while x.exitcode is None and ((x.state == 'idle' and p._inqueue.q) or x.state == 'busy'):
            if x.state == 'idle':
                w.w_take(x)
            else:
                w.w_done(x)
    w.drain_results()
    A.observe()
    if A.outcomes != exp_a:
        return fail('C01:failure-attached-to-a-different-job:' + kind_a + (':first-job-of-the-pool' if earlier == 0 else ''))
    # B: the k items its input did yield are delivered as usual; nothing of B succeeds beyond them
    # (what B's consumer sees beyond them is not specified by the statement; for the unordered iterator the failure record
    # takes the place of one announced item, so the check is made for the ordered one only)
    B.observe()
    if kind_b == 'imap':
        good = [v for ok, v in B.outcomes if ok]
        if good != [('r', 'b%d' % j) for j in range(k)]:
            return fail('C01:items-of-the-failing-submission-lost-or-invented')
    # ... and B as a whole comes to an end: its consumer reaches the end of the iteration instead of waiting for ever, and the handle
    # leaves the cache (otherwise close() + join() wait on it)
    if not B.complete():
        return fail('C01:M4:never-resolved:submission-with-a-failing-input:' + kind_b)
    if any(h is hb for h in p._cache.values()):
        return fail('C01:M5:resolved-job-stays-in-the-cache:submission-with-a-failing-input:' + kind_b)
    return True


def h_bad_input(code: int) -> bool:
    """
    pre: 0 <= code < CODEMAX
    post: _
    """
    try:
        return _scenario(code, False)
    except Prune:
        return True


def h_bad_input_twin(code: int) -> bool:
    """
    pre: 0 <= code < CODEMAX
    post: _
    """
    try:
        return _scenario(code, True)
    except Prune:
        return True

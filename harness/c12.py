"""C12 - exceptions and tracebacks cross the process boundary intact.

Solver part: the depth limit of billiard.einfo.Traceback on a chain of symbolic
length with a symbolic frame limit.  Concrete part (validation obligations, no
solver): real exceptions with shallow / deep / beyond-the-recursion-limit
tracebacks through ExceptionInfo, traceback.format_exception and 1..3 pickle
round trips.  The "unserialisable result" clause runs in the worker harness
(harness/c03.py: h_unpicklable, h_protocol).
"""
import pickle
import sys
import traceback
import types
import billiard.einfo as be
from harness.hbase import fail, tier, Prune, realize

LMAX = tier(8, 14)


def _code():
    return _code.__code__


class FakeFrame:
    def __init__(self, i):
        self.f_globals = {'__file__': 'synthetic.py', '__name__': 'synthetic'}
        self.f_locals = {}
        self.f_code = _code.__code__
        self.f_lineno = 1000 + i
        self.f_lasti = 0


class FakeTb:
    def __init__(self, i, nxt):
        self.tb_frame = FakeFrame(i)
        self.tb_lineno = 1000 + i
        self.tb_lasti = 0
        self.tb_next = nxt


def chain(L):
    nxt = None
    for i in reversed(range(L)):
        nxt = FakeTb(i, nxt)
    return nxt


def _depth(L, max_frames, want):
    L = realize(L)
    tb = chain(L)
    cp = be.Traceback(tb, max_frames)
    n = 0
    node = cp
    truncated = False
    while node is not None:
        if isinstance(node, be._Truncated) or type(node).__name__ == '_Truncated':
            truncated = True
            if node.tb_next is not None:
                return fail('C12:depth:marker-not-last')
            break
        if node.tb_lineno != 1000 + n or node.tb_frame.f_lineno != 1000 + n:
            return fail('C12:depth:frames-reordered-or-altered')
        n += 1
        node = node.tb_next
        if n > L:
            return fail('C12:depth:copy-longer-than-original')
    keep = max_frames + 2
    if n != (L if L <= keep else keep):
        return fail('C12:depth:wrong-number-of-frames-kept')
    if truncated != (L > keep):
        return fail('C12:depth:truncation-marker')
    if n + (1 if truncated else 0) > max_frames + 3:
        return fail('C12:depth:unbounded')
    if want and truncated:
        return False
    return True


def h_depth(L: int, max_frames: int) -> bool:
    """
    pre: 1 <= L <= LMAX and 0 <= max_frames <= LMAX
    post: _
    """
    return _depth(L, max_frames, False)


def h_depth_twin(L: int, max_frames: int) -> bool:
    """
    pre: 1 <= L <= LMAX and 0 <= max_frames <= LMAX
    post: _
    """
    return _depth(L, max_frames, True)


# ---------------------------------------------------------------------------
# concrete validation (no solver)

class Custom(Exception):
    pass


def _the_raising_frame(exc):
    raise exc


def _raise_at(depth, exc):
    if depth <= 0:
        return _the_raising_frame(exc)
    return _raise_at(depth - 1, exc)


def _einfo(depth, exc):
    try:
        _raise_at(depth, exc)
    except BaseException:
        return be.ExceptionInfo()


def _tb_len(tb):
    n = 0
    while tb is not None:
        n += 1
        tb = tb.tb_next
    return n


def v_roundtrip(tier_name):
    cases = 0
    limit = be.DEFAULT_MAX_FRAMES
    old = sys.getrecursionlimit()
    try:
        sys.setrecursionlimit(max(old, 5000))
        depths = [0, 1, 5, limit - 1, limit, limit + 1, limit + 2, limit + 50, 3000]
        excs = [ValueError('x', 1), KeyError('k'), Custom(('a', 2), None), SystemExit(3), KeyboardInterrupt(), BaseException('b'),
                OSError(5, 'msg')]
        for d in depths:
            for exc in excs:
                cases += 1
                ei = _einfo(d, exc)
                if _tb_len(ei.tb) > limit + 3:
                    return {'status': 'refuted', 'messages': ['traceback depth %d exceeds bound %d' % (_tb_len(ei.tb), limit + 3)], 'cases': cases}
                text = ''.join(traceback.format_exception(ei.type, ei.exception.exc, ei.tb))
                if '_the_raising_frame' not in ei.traceback:
                    return {'status': 'refuted', 'messages': ['traceback text does not name the raising frame'], 'cases': cases}
                cur = ei
                first = None
                for k in range(3):
                    cur = pickle.loads(pickle.dumps(cur))
                    e = cur.exception
                    snap = (cur.type, type(e), e.args, cur.traceback, _tb_len(cur.tb), ''.join(traceback.format_tb(cur.tb)))
                    if type(e) is not type(exc) or e.args != exc.args or cur.type is not type(exc):
                        return {'status': 'refuted', 'messages': ['type/args changed after %d round trips: %r' % (k + 1, snap[:3])], 'cases': cases}
                    if k == 0 and (not isinstance(e.__cause__, be.RemoteTraceback) or '_the_raising_frame' not in str(e.__cause__)):
                        return {'status': 'refuted', 'messages': ['remote traceback not attached as the cause: %r' % (e.__cause__,)], 'cases': cases}
                    if '_the_raising_frame' not in snap[3] or '_raise_at' not in snap[5]:
                        return {'status': 'refuted', 'messages': ['traceback no longer names the raising frame'], 'cases': cases}
                    if first is None:
                        first = snap
                    elif snap != first:
                        return {'status': 'refuted', 'messages': ['record changed by round trip %d' % (k + 1)], 'cases': cases}
        # the traceback object formats exactly like the real one (below the frame limit), also when two different functions of one
        # file share a name (two decorators' wrappers) and when the record was built from an explicit (type, value, traceback) triple
        def deco_a(fn):
            def wrapper(*a):
                return fn(*a)
            return wrapper

        def deco_b(fn):
            def wrapper(*a):
                x = 1
                return fn(*a) if x else None
            return wrapper
        stacked = deco_a(deco_b(deco_a(_the_raising_frame)))
        for explicit in (False, True):
            cases += 1
            try:
                stacked(ValueError('w'))
            except ValueError:
                et, ev, tb = sys.exc_info()
                real = traceback.format_tb(tb)
                real_text = ''.join(traceback.format_exception(et, ev, tb))
                ei = be.ExceptionInfo((et, ev, tb)) if explicit else be.ExceptionInfo()
            for k in range(2):
                try:
                    formatted = traceback.format_tb(ei.tb)
                except Exception as exc:
                    return {'status': 'refuted', 'messages': ['the standard traceback module cannot format the picklable traceback (same-named functions): %s: %s'
                                                              % (type(exc).__name__, exc)], 'cases': cases}
                if formatted != real:
                    return {'status': 'refuted', 'messages': ['picklable traceback formats differently from the real one (same-named functions, explicit=%s, after %d round trips)'
                                                              % (explicit, k)], 'cases': cases}
                if ei.traceback != real_text:
                    return {'status': 'refuted', 'messages': ['traceback text differs from traceback.format_exception of the real traceback (explicit triple=%s)' % explicit],
                            'cases': cases}
                ei = pickle.loads(pickle.dumps(ei))
        # the pool-made record for a result that could not be serialised (what Worker.workloop builds): type, arguments and text
        # are equally stable under further round trips
        import billiard.pool as _bp
        for inner, val in ((TypeError("cannot pickle 'x'"), [1, 2]), (ValueError('v', 3), 'text'), (Custom(('a', 2), None), None)):
            cases += 1
            try:
                raise inner
            except Exception:
                tb = sys.exc_info()[2]
            wrapped = _bp.MaybeEncodingError(inner, val)
            cur = be.ExceptionInfo((_bp.MaybeEncodingError, wrapped, tb))
            if 'v_roundtrip' not in cur.traceback or 'Traceback' not in cur.traceback:
                return {'status': 'refuted', 'messages': ['text of a record built from an explicit (type, value, traceback) triple does not name the raising frame'], 'cases': cases}
            first = None
            for k in range(3):
                cur = pickle.loads(pickle.dumps(cur))
                e = cur.exception
                snap = (cur.type, type(e), e.args, getattr(e, 'exc', None), getattr(e, 'value', None), str(e), cur.traceback)
                if cur.type is not _bp.MaybeEncodingError or type(e) is not _bp.MaybeEncodingError:
                    return {'status': 'refuted', 'messages': ['encoding-error record changed type after %d round trips' % (k + 1)], 'cases': cases}
                if e.args != wrapped.args:
                    return {'status': 'refuted', 'messages': ['arguments of the encoding-error record changed after %d round trip(s): %r -> %r'
                                                              % (k + 1, wrapped.args, e.args)], 'cases': cases}
                if first is None:
                    first = snap
                elif snap != first:
                    return {'status': 'refuted', 'messages': ['encoding-error record changed by round trip %d' % (k + 1)], 'cases': cases}
        # __reduce__ of the stand-ins: (cls.__new__, (cls,), __dict__), so one round trip is the identity on state
        ei = _einfo(3, ValueError('r'))
        for obj, cls in ((ei.tb, be.Traceback), (ei.tb.tb_frame, be._Frame), (ei.tb.tb_frame.f_code, be._Code), (be._Truncated(), be._Truncated)):
            cases += 1
            r = obj.__reduce__()
            if not (isinstance(r, tuple) and len(r) == 3 and r[1] == (cls,) and r[2] is obj.__dict__):
                return {'status': 'refuted', 'messages': ['__reduce__ shape of %s: %r' % (cls.__name__, r[:2])], 'cases': cases}
            clone = pickle.loads(pickle.dumps(obj))
            if pickle.dumps(clone) != pickle.dumps(obj):
                return {'status': 'refuted', 'messages': ['pickle round trip is not the identity on the state of %s' % cls.__name__], 'cases': cases}
    finally:
        sys.setrecursionlimit(old)
    return {'status': 'confirmed', 'cases': cases, 'nontrivial_witness': True,
            'detail': '%d (depth, exception) cases incl. tracebacks beyond the frame limit (%d) and 3 pickle round trips' % (cases, limit)}

"""C17 - locks, semaphores, conditions and events: no lost wake-ups (E2).

The real source of synchronize.Condition.wait/notify/notify_all and
Event.is_set/set/clear/wait is compiled (vlib/py2ts.py) and model-checked with
z3 (vlib/bmc.py) over all interleavings at semaphore-operation granularity, with
timeouts firing at any step.  A model is replayed against the real classes
running in real threads over gated stand-in semaphores.
"""
import threading
import time

import z3

from vlib import py2ts, bmc
from vlib.py2ts import Asm, Obj, compile_method
from vlib.bmc import BVV, System

THOROUGH = False


def cond_env(prefix=''):
    return {
        'self._lock': Obj('lock', 'L'),
        'self._sleeping_count': Obj('sem', 'S'),
        'self._woken_count': Obj('sem', 'W'),
        'self._wait_semaphore': Obj('sem', 'X'),
    }


def event_env():
    return {
        'self._cond': Obj('cond', 'C', lock='L'),
        'self._flag': Obj('sem', 'F'),
    }


def load():
    cm, _ = py2ts.load_class_methods('billiard/synchronize.py', 'Condition')
    em, _ = py2ts.load_class_methods('billiard/synchronize.py', 'Event')
    cenv = cond_env()
    methods = {}
    for name in ('wait', 'notify', 'notify_all'):
        methods[('self._cond', name)] = (cm[name], cenv, 'c.')
    return cm, em, cenv, event_env(), methods


def annotate(prog, match, ann, which=0):
    """attach ghost updates to the which-th instruction satisfying match"""
    n = -1
    for k, ins in enumerate(prog):
        if match(ins):
            n += 1
            if n == which:
                prog[k] = tuple(ins) + (ann,)
                return k
    raise py2ts.Unsupported('instruction to annotate not found')


def one(name):
    return lambda view: BVV(1)


# ---------------------------------------------------------------------------
# Condition scenarios

def cond_system(nw, nops, mutate=None):
    """nw waiters (timed flag symbolic each) || one notifier doing nops operations (notify / notify_all, symbolic)"""
    cm, em, cenv, eenv, methods = load()
    threads = []
    syms = {}
    ghosts = {}
    info = {'waiters': [], 'notifier': None}
    for i in range(nw):
        a = Asm()
        a.emit('lock_acq', 'L')
        rv = compile_method(cm['wait'], cenv, {}, a, args={'timeout': ('sym', 'timed%d' % i)}, prefix='w.')
        a.emit('lock_rel', 'L')
        a.emit('ret', ('loc', rv))
        prog = a.link()
        syms['timed%d' % i] = None
        for g in ('ann%d' % i, 'ack%d' % i, 'got%d' % i, 'gaveup%d' % i):
            ghosts[g] = 0
        annotate(prog, lambda ins: ins[0] == 'sem_rel' and ins[1] == 'S', {'ann%d' % i: one(1)})
        annotate(prog, lambda ins: ins[0] == 'sem_rel' and ins[1] == 'W', {'ack%d' % i: one(1)})
        xpcs = []
        # annotate both variants (timed / untimed) of the X acquire
        for k, ins in enumerate(prog):
            if ins[0] == 'sem_acq' and ins[1] == 'X':
                dst = ins[4]
                prog[k] = tuple(ins) + ({
                    'got%d' % i: (lambda view, dst=dst: view['loc'][dst]),
                    'gaveup%d' % i: (lambda view, dst=dst: z3.If(view['loc'][dst] == BVV(0), BVV(1), BVV(0))),
                },)
                xpcs.append(k)
        info['waiters'].append({'xpcs': xpcs})
        threads.append(prog)
    a = Asm()
    for k in range(nops):
        syms['op%d' % k] = None
        a.emit('lock_acq', 'L')
        l0, l1, le = a.label('notify'), a.label('notify_all'), a.label('done')
        a.emit('br', ('eq', ('sym', 'op%d' % k), ('const', 0)), l0, l1)
        a.place(l0)
        compile_method(cm['notify'], cenv, {}, a, prefix='n%d.' % k)
        a.emit('jmp', le)
        a.place(l1)
        compile_method(cm['notify_all'], cenv, {}, a, prefix='a%d.' % k)
        a.place(le)
        a.emit('lock_rel', 'L')
    a.emit('ret', ('const', 0))
    prog = a.link()
    # snapshot of who was waiting when each operation took the lock
    which = 0
    for k, ins in enumerate(prog):
        if ins[0] == 'lock_acq':
            ann = {}
            for i in range(nw):
                ghosts['before%d_%d' % (which, i)] = 0
                # "was waiting": has announced itself and has not yet acknowledged waking up (a waiter that
                # has just timed out internally but not returned yet still counts as a waiter)
                ann['before%d_%d' % (which, i)] = (lambda view, i=i: z3.If(z3.And(view['gh']['ann%d' % i] == BVV(1), view['gh']['ack%d' % i] == BVV(0)),
                                                                              BVV(1), BVV(0)))
            prog[k] = tuple(ins) + (ann,)
            which += 1
    threads.append(prog)
    info['notifier'] = nw
    sysm = System(threads, sems={'S': 0, 'W': 0, 'X': 0}, locks={'L': 0}, ghosts=ghosts, syms=syms)
    cons = [z3.ULE(v, BVV(1)) for v in sysm.syms.values()]
    return sysm, cons, info


def cond_properties(sysm, info, nw, nops):
    """name -> bad(states)"""
    nt = info['notifier']

    def inflight(st, i):
        return z3.If(z3.And(st['gh']['ann%d' % i] == BVV(1), st['gh']['ack%d' % i] == BVV(0)), BVV(1), BVV(0))

    def no_notifier_inside(st):
        return st['lock']['L'] != BVV(nt + 1)

    def W4(states):
        bads = []
        for st in states:
            n = sum([inflight(st, i) for i in range(nw)], BVV(0))
            bads.append(z3.And(no_notifier_inside(st), z3.Or(st['sem']['X'] != BVV(0), st['sem']['S'] - st['sem']['W'] != n)))
        return z3.Or(*bads)

    def W5(states):
        return z3.Or(*[st['err'] for st in states])

    def W3(states):
        fin = states[-1]
        return z3.Or(*[z3.And(sysm.ended(fin, i), fin['gh']['gaveup%d' % i] == BVV(1), fin['loc'][i]['$ret'] != BVV(0)) for i in range(nw)])

    def W1(states):
        fin = states[-1]
        bads = []
        for k in range(nops):
            nbefore = sum([fin['gh']['before%d_%d' % (k, i)] for i in range(nw)], BVV(0))
            for i in range(nw):
                owed = z3.And(sysm.syms['timed%d' % i] == BVV(0), fin['gh']['before%d_%d' % (k, i)] == BVV(1),
                              z3.Or(sysm.syms['op%d' % k] == BVV(1), nbefore == BVV(1)))
                bads.append(z3.And(owed, z3.Not(z3.And(sysm.ended(fin, i), fin['loc'][i]['$ret'] == BVV(1)))))
        return z3.Or(*bads)

    def W2(states):
        fin = states[-1]
        woken = sum([z3.If(z3.And(sysm.ended(fin, i), fin['loc'][i]['$ret'] == BVV(1)), BVV(1), BVV(0)) for i in range(nw)], BVV(0))
        nnotify = sum([z3.If(sysm.syms['op%d' % k] == BVV(0), BVV(1), BVV(0)) for k in range(nops)], BVV(0))
        all_notify = z3.And(*[sysm.syms['op%d' % k] == BVV(0) for k in range(nops)])
        return z3.And(all_notify, z3.UGT(woken, nnotify))

    def W7(states):
        fin = states[-1]
        bads = [z3.Not(sysm.ended(fin, nt))]
        for i in range(nw):
            legit_block = z3.And(sysm.syms['timed%d' % i] == BVV(0), sysm.at(fin, i, info['waiters'][i]['xpcs']))
            bads.append(z3.Not(z3.Or(sysm.ended(fin, i), legit_block)))
        return z3.Or(*bads)

    return {'W1-waiter-before-notify-is-woken': W1, 'W2-notify-wakes-at-most-one': W2, 'W3-timed-out-wait-returns-False': W3,
            'W4-condition-consistent-between-notifications': W4, 'W5-no-assertion-of-the-real-code-fails': W5, 'W7-no-deadlock': W7}


def cond_bound(nw, nops):
    # visible ops: waiter <= 7 each; notifier per op: lock(2) + assert-acquire(1) + reconcile (<= 2 per waiter + 1) + wake (<= 3 per waiter + 1) + rezero (<= nw + 1)
    return 7 * nw + nops * (4 + 6 * nw + 3) + 2


# ---------------------------------------------------------------------------
# Event scenarios

def event_system(roles, flag0=0):
    """roles: list of 'wait' | 'set' | 'clear' | 'is_set'; flag0: the event is already set when the threads start"""
    cm, em, cenv, eenv, methods = load()
    threads = []
    syms = {}
    ghosts = {'setdone': flag0}
    info = {'roles': roles, 'xpcs': {}, 'flag0': flag0}
    for i, role in enumerate(roles):
        a = Asm()
        if role == 'wait':
            syms['timed%d' % i] = None
            rv = compile_method_with(em['wait'], eenv, methods, a, {'timeout': ('sym', 'timed%d' % i)}, 'e%d.' % i)
        else:
            rv = compile_method_with(em[role], eenv, methods, a, {}, 'e%d.' % i)
        a.emit('ret', ('loc', rv))
        prog = a.link()
        if role == 'set':
            annotate(prog, lambda ins: ins[0] == 'sem_rel' and ins[1] == 'F', {'setdone': one(1)})
        if role in ('wait', 'is_set'):
            ghosts['sawset%d' % i] = 0
            # the last flag test decides the result: remember whether a set() had happened by then
            for k, ins in enumerate(prog):
                if ins[0] == 'sem_acq' and ins[1] == 'F':
                    prog[k] = tuple(ins) + ({'sawset%d' % i: (lambda view: view['gh']['setdone'])},)
        if role == 'wait':
            # whether a set() had already raised the flag when this thread made its last visible step (E8)
            ghosts['lastset%d' % i] = 0
            from vlib.bmc import VISIBLE
            for k, ins in enumerate(prog):
                if ins[0] in VISIBLE:
                    ann = dict(ins[-1]) if isinstance(ins[-1], dict) else {}
                    ann['lastset%d' % i] = (lambda view: view['gh']['setdone'])
                    prog[k] = (tuple(ins[:-1]) if isinstance(ins[-1], dict) else tuple(ins)) + (ann,)
        info['xpcs'][i] = [k for k, ins in enumerate(prog) if ins[0] == 'sem_acq' and ins[1] == 'X']
        threads.append(prog)
    sysm = System(threads, sems={'S': 0, 'W': 0, 'X': 0, 'F': flag0}, locks={'L': 0}, ghosts=ghosts, syms=syms)
    cons = [z3.ULE(v, BVV(1)) for v in sysm.syms.values()]
    return sysm, cons, info


def compile_method_with(fn, env, methods, asm, args, prefix):
    c = py2ts.Compiler(asm, env, methods, prefix=prefix)
    params = [a.arg for a in fn.args.args if a.arg != 'self']
    defaults = fn.args.defaults
    for i, p in enumerate(params):
        if p in args:
            v = args[p]
        else:
            v = c.expr(defaults[i - (len(params) - len(defaults))])
        asm.emit('set', c.loc(p), v)
    rv = asm.tmp('result')
    end = asm.label('callend')
    c.ret_stack.append((rv, end))
    asm.emit('set', rv, ('const', 0))
    c.block(fn.body)
    asm.place(end)
    return rv


def event_properties(sysm, info):
    roles = info['roles']
    n = len(roles)
    has_clear = 'clear' in roles
    has_set = 'set' in roles

    def E1(states):
        return z3.Or(*[z3.UGT(st['sem']['F'], BVV(1)) for st in states])

    def E5(states):
        return z3.Or(*[st['err'] for st in states])

    def E6(states):
        # a True result means a set() had happened before the deciding flag test; without clear(), an untimed wait ends True
        fin = states[-1]
        bads = []
        for i, r in enumerate(roles):
            if r in ('wait', 'is_set'):
                bads.append(z3.And(sysm.ended(fin, i), fin['loc'][i]['$ret'] == BVV(1), fin['gh']['sawset%d' % i] == BVV(0)))
                bads.append(z3.And(sysm.ended(fin, i), z3.UGT(fin['loc'][i]['$ret'], BVV(1))))
            if r == 'wait' and has_set and not has_clear:
                bads.append(z3.And(sysm.syms['timed%d' % i] == BVV(0), z3.Not(z3.And(sysm.ended(fin, i), fin['loc'][i]['$ret'] == BVV(1)))))
        return z3.Or(*bads)

    def E7(states):
        fin = states[-1]
        bads = []
        for i, r in enumerate(roles):
            if r == 'wait':
                legit = z3.And(sysm.syms['timed%d' % i] == BVV(0), sysm.at(fin, i, info['xpcs'][i]), fin['sem']['F'] == BVV(0)) if (has_clear or not has_set) else z3.BoolVal(False)
                bads.append(z3.Not(z3.Or(sysm.ended(fin, i), legit)))
            else:
                bads.append(z3.Not(sysm.ended(fin, i)))
        if has_set and not has_clear:
            bads.append(fin['sem']['F'] != BVV(1))
        if has_clear and not has_set:
            # clear() is atomic with respect to the take-and-put-back of is_set()/wait(): once every thread has ended the
            # event is clear, whatever it was at the start
            bads.append(fin['sem']['F'] != BVV(0))
        return z3.Or(*bads)

    def E8(states):
        # "returns True exactly when the event was set before its deadline": without clear(), a wait (timed or not) whose last step
        # came after a set() had raised the flag returns True - a time-out of the inner condition wait does not decide the result
        fin = states[-1]
        bads = []
        for i, r in enumerate(roles):
            if r == 'wait' and not has_clear:
                bads.append(z3.And(sysm.ended(fin, i), fin['loc'][i]['$ret'] == BVV(0), fin['gh']['lastset%d' % i] == BVV(1)))
        return z3.Or(*bads) if bads else z3.BoolVal(False)

    return {'E1-flag-is-0-or-1': E1, 'E5-no-assertion-of-the-real-code-fails': E5, 'E6-wait-result-matches-flag': E6, 'E7-no-deadlock-flag-final': E7,
            'E8-wait-false-only-if-not-set-by-its-last-step': E8}


def event_bound(roles):
    k = 2
    nwait = roles.count('wait')
    for r in roles:
        if r == 'wait':
            k += 2 + 2 + 7 + 2
        elif r == 'set':
            k += 4 + 4 + 6 * nwait + 3
        else:
            k += 5
    return k


# ---------------------------------------------------------------------------
# native replay: the real classes in real threads over gated stand-in semaphores

class Diverged(Exception):
    pass


class Blocked(BaseException):
    pass


class Gate:
    def __init__(self, steps):
        self.steps = [st for st in steps if st['thread'] != 15]
        self.pos = 0
        self.cv = threading.Condition()
        self.trace = []
        self.diverged = None
        self.sems = {}
        self.tids = {}

    def tid(self):
        return self.tids.get(threading.get_ident())

    def op(self, fn):
        """run one semaphore/mutex operation at the position the schedule gives this thread"""
        me = self.tid()
        with self.cv:
            deadline = time.time() + 10
            while True:
                if self.diverged:
                    raise Blocked()
                if self.pos >= len(self.steps):
                    break               # schedule exhausted: free run
                if self.steps[self.pos]['thread'] == me:
                    break
                if not self.cv.wait(timeout=max(0.0, deadline - time.time())) and time.time() >= deadline:
                    self.diverged = 'thread %s never got its turn at step %d' % (me, self.pos)
                    self.cv.notify_all()
                    raise Blocked()
            step = self.steps[self.pos] if self.pos < len(self.steps) else None
            r = fn(step)
            if step is not None:
                snap = {n: s.value for n, s in self.sems.items()}
                if snap != step['sems_after']:
                    self.diverged = 'semaphore values %r differ from the model %r after step %d' % (snap, step['sems_after'], self.pos)
                self.trace.append((me, snap))
                self.pos += 1
            self.cv.notify_all()
            if self.diverged:
                raise Blocked()
            return r


class GSem:
    def __init__(self, gate, name, value=0):
        self.gate = gate
        self.name = name
        self.value = value
        gate.sems[name] = self
        self._semlock = self            # _is_zero / _get_value: plain reads (local expressions in the model)

    def _is_zero(self):
        return self.value == 0

    def _get_value(self):
        return self.value

    def acquire(self, block=True, timeout=None):
        def fn(step):
            if self.value > 0:
                self.value -= 1
                return True
            if not block:
                return False
            if step is not None:
                if timeout is not None and step['fire']:
                    return False
                self.gate.diverged = 'blocking acquire of %s scheduled while its value is 0' % self.name
                return False
            return None        # free run and would block
        while True:
            r = self.gate.op(fn)
            if r is not None:
                return r
            # free run: wait for a release (or give up: blocked for ever / timed out)
            with self.gate.cv:
                if self.value == 0:
                    if timeout is not None:
                        return False
                    if not self.gate.cv.wait(timeout=0.5) and self.value == 0:
                        raise Blocked()

    def release(self):
        def fn(step):
            self.value += 1
            return True
        return self.gate.op(fn)


class GSemLockView:
    def __init__(self, lock):
        self.lock = lock

    def _is_mine(self):
        return self.lock.owner == threading.get_ident()

    def _count(self):
        return 1 if self._is_mine() else 0


class GLock:
    def __init__(self, gate):
        self.gate = gate
        self.owner = None
        self._semlock = GSemLockView(self)

    def acquire(self, block=True, timeout=None):
        def fn(step):
            if self.owner is None:
                self.owner = threading.get_ident()
                return True
            if step is not None:
                self.gate.diverged = 'lock acquire scheduled while the lock is held'
                return True
            return None
        while True:
            r = self.gate.op(fn)
            if r is not None:
                return r
            with self.gate.cv:
                if self.owner is not None:
                    if not self.gate.cv.wait(timeout=0.5) and self.owner is not None:
                        raise Blocked()

    def release(self):
        def fn(step):
            if self.owner != threading.get_ident():
                raise AssertionError('release of a lock that is not owned')
            self.owner = None
            return True
        return self.gate.op(fn)

    def __enter__(self):
        return self.acquire()

    def __exit__(self, *a):
        self.release()


def replay(spec):
    """returns False when the native run follows the model's violating run step by step (violation reproduced)"""
    import billiard.synchronize as bs
    gate = Gate(spec['schedule'])
    lock = GLock(gate)
    cond = bs.Condition.__new__(bs.Condition)
    cond.__setstate__((lock, GSem(gate, 'S'), GSem(gate, 'W'), GSem(gate, 'X')))
    results = {}
    errors = {}
    syms = spec['syms']
    bodies = []
    if spec['kind'] == 'cond':
        nw, nops = spec['nw'], spec['nops']
        for i in range(nw):
            def waiter(i=i):
                with cond:
                    return cond.wait(1000.0 if syms['timed%d' % i] else None)
            bodies.append(waiter)

        def notifier():
            for k in range(nops):
                with cond:
                    if syms['op%d' % k] == 0:
                        cond.notify()
                    else:
                        cond.notify_all()
            return 0
        bodies.append(notifier)
    else:
        ev = bs.Event.__new__(bs.Event)
        ev._cond = cond
        ev._flag = GSem(gate, 'F')
        ev._flag.value = spec.get('flag0', 0)
        for i, role in enumerate(spec['roles']):
            if role == 'wait':
                bodies.append(lambda i=i: ev.wait(1000.0 if syms['timed%d' % i] else None))
            elif role == 'set':
                bodies.append(lambda: ev.set() or 0)
            elif role == 'clear':
                bodies.append(lambda: ev.clear() or 0)
            else:
                bodies.append(lambda: ev.is_set())

    def run(i, body):
        gate.tids[threading.get_ident()] = i
        try:
            results[i] = body()
        except Blocked:
            results[i] = 'blocked'
        except AssertionError as e:
            errors[i] = 'AssertionError: %s' % e
            results[i] = 'assert'
    threads = [threading.Thread(target=run, args=(i, b), daemon=True) for i, b in enumerate(bodies)]
    for t in threads:
        t.start()
    for t in threads:
        t.join(30)
    from harness import hbase
    hbase.trace('native results', results, 'errors', errors, 'diverged', gate.diverged, 'steps', gate.pos, 'of', len(gate.steps))
    if gate.diverged:
        if spec.get('property') != 'conformance-witness':
            hbase.trace('NOT REPRODUCED: model and implementation diverge:', gate.diverged)
            return True
        raise Diverged(gate.diverged)
    # the model's final facts
    fin = spec['final']
    ended = [pc == ln - 1 for pc, ln in zip(fin['pcs'], spec['lengths'])]
    for i, e in enumerate(ended):
        native_ended = results.get(i) not in ('blocked', 'assert', None)
        if spec.get('err_expected'):
            continue
        if e != native_ended:
            raise Diverged('thread %d: model ended=%s native result=%r' % (i, e, results.get(i)))
        if e and int(bool(results[i])) != int(bool(fin['ret'][i])) and i < len(spec.get('value_threads', ended)):
            if spec['value_threads'][i]:
                raise Diverged('thread %d returned %r natively, %r in the model' % (i, results[i], fin['ret'][i]))
    if spec.get('err_expected') and not errors:
        raise Diverged('the model predicts a failing assertion of the real code; none failed natively')
    if spec['kind'] == 'event' and all(ended) and ev._flag.value != fin['sem']['F']:
        raise Diverged('final flag %r natively, %r in the model' % (ev._flag.value, fin['sem']['F']))
    hbase.REPLAY['tag'] = 'C17:' + spec['property']
    return False


# ---------------------------------------------------------------------------
# obligations (called through vlib.smtworker)

def _run_scenario(kind, sysm, cons, info, props, K, spec_base, witness, timeout_s):
    t0 = time.time()
    detail = []
    for name, bad in props.items():
        r = bmc.check_property(sysm, K, bad, cons, timeout_s)
        detail.append({'property': name, 'status': r['status'], 'K': K, 'unwinding': r.get('unwinding')})
        if r['status'] == 'violated':
            spec = dict(spec_base)
            spec.update(property=name, schedule=r['schedule'], syms=r['syms'], final=r['final'],
                        lengths=[len(p) for p in sysm.threads], err_expected=('assertion' in name))
            return {'status': 'refuted', 'cex': {'args': [spec], 'kwargs': {}}, 'detail': detail,
                    'solver_queries': bmc.STATS['queries'], 'solver_time_s': round(bmc.STATS['time'], 2),
                    'states': bmc.STATS['states'], 'transitions': bmc.STATS['transitions']}
        if r['status'] != 'holds':
            return {'status': 'unknown', 'detail': detail, 'messages': [r.get('why', 'solver gave %s' % r.get('result'))],
                    'solver_queries': bmc.STATS['queries'], 'solver_time_s': round(bmc.STATS['time'], 2)}
    # vacuity: the interesting behaviour is reachable in the same encoding
    w = bmc.check_property(sysm, K, witness, cons, timeout_s)
    ok = w['status'] == 'violated'
    detail.append({'property': 'reachability-witness', 'status': 'sat' if ok else w['status']})
    return {'status': 'confirmed' if ok else 'unknown', 'detail': detail, 'nontrivial_witness': ok,
            'solver_queries': bmc.STATS['queries'], 'solver_time_s': round(bmc.STATS['time'], 2),
            'states': bmc.STATS['states'], 'transitions': bmc.STATS['transitions'],
            'samples': [{'scenario': spec_base, 'K': K, 'witness_schedule': [s['thread'] for s in w.get('schedule', [])][:40]}],
            'messages': [] if ok else ['reachability witness not found: the scenario may be vacuous']}


def _cond(nw, nops, timeout_s):
    sysm, cons, info = cond_system(nw, nops)
    props = cond_properties(sysm, info, nw, nops)
    K = cond_bound(nw, nops)

    def witness(states):
        fin = states[-1]
        return z3.Or(*[z3.And(sysm.syms['timed%d' % i] == BVV(0), sysm.ended(fin, i), fin['loc'][i]['$ret'] == BVV(1)) for i in range(nw)])
    return _run_scenario('cond', sysm, cons, info, props, K, {'kind': 'cond', 'nw': nw, 'nops': nops, 'value_threads': [True] * nw + [False]},
                         witness, timeout_s)


def ob_cond_2w_1op(tier):
    return _cond(2, 1, 300 if tier == 'quick' else 900)


def ob_cond_2w_2ops(tier):
    return _cond(2, 2, 600 if tier == 'quick' else 1500)


def ob_cond_3w_1op(tier):
    return _cond(3, 1, 1500)


def _event(roles, timeout_s, flag0=0):
    sysm, cons, info = event_system(roles, flag0)
    props = event_properties(sysm, info)
    K = event_bound(roles)

    def witness(states):
        fin = states[-1]
        alts = [z3.And(sysm.ended(fin, i), fin['loc'][i]['$ret'] == BVV(1)) for i, r in enumerate(roles) if r in ('wait', 'is_set')]
        return z3.Or(*alts)
    vt = [r in ('wait', 'is_set') for r in roles]
    return _run_scenario('event', sysm, cons, info, props, K, {'kind': 'event', 'roles': roles, 'value_threads': vt, 'flag0': flag0},
                         witness, timeout_s)


def ob_event_wws(tier):
    return _event(['wait', 'wait', 'set'], 600)


def ob_event_wsc(tier):
    return _event(['wait', 'set', 'clear'], 600)


def ob_event_isw(tier):
    return _event(['is_set', 'set', 'wait'], 600)


def ob_event_set_ic(tier):
    """the event is set at the start: is_set() and clear() race (clear must not be lost inside is_set's take-and-put-back)"""
    return _event(['is_set', 'clear'], 600, flag0=1)


def ob_event_set_wic(tier):
    return _event(['wait', 'is_set', 'clear'], 900, flag0=1)


def v_semaphore_model(tier):
    """the semaphore / mutex model of vlib/bmc.py against the real _multiprocessing.SemLock on all
    single-thread operation sequences up to length 5 (acquire(False) / release on value 0..2, bounded and not)"""
    import itertools
    import _multiprocessing
    cases = 0
    SEM, MUTEX = 1, 0
    for maxv, init in ((2, 0), (2, 1), (2, 2), (1, 1), (1, 0)):
        for seq in itertools.product('ar', repeat=5):
            cases += 1
            try:
                real = _multiprocessing.SemLock(SEM, init, maxv, 'vp-%d-%d' % (cases, init), True)
            except TypeError:
                real = _multiprocessing.SemLock(SEM, init, maxv)
            v = init
            for op in seq:
                if op == 'a':
                    got = real.acquire(False)
                    exp = v > 0
                    if exp:
                        v -= 1
                    if got != exp:
                        return {'status': 'error', 'messages': ['acquire(False) model differs: %r %r' % (seq, (maxv, init))], 'cases': cases}
                else:
                    try:
                        real.release()
                        ok = True
                    except ValueError:
                        ok = False
                    exp_ok = v < maxv
                    if exp_ok:
                        v += 1
                    if ok != exp_ok:
                        return {'status': 'error', 'messages': ['release model differs (bounded release): %r %r' % (seq, (maxv, init))], 'cases': cases}
                if real._get_value() != v:
                    return {'status': 'error', 'messages': ['value differs'], 'cases': cases}
    return {'status': 'confirmed', 'cases': cases, 'nontrivial_witness': True,
            'detail': 'counting semantics (acquire(False), release, bounded release raising ValueError) == real SemLock on %d sequences; '
                      'the condition semaphores of the scenarios never reach their maximum (checked as an error flag in the encoding)' % cases}


def h_wrappers(v: int, kind: int) -> bool:
    """
    pre: 0 <= v <= 5 and 0 <= kind <= 3
    post: _
    """
    # Lock / RLock / Semaphore / BoundedSemaphore pass (kind, value, maxvalue) to SemLock as documented
    import billiard.synchronize as bs
    from harness.hbase import fail
    seen = []

    class Probe(bs.SemLock):
        def __init__(self, kind_, value, maxvalue, ctx=None):
            seen.append((kind_, value, maxvalue))
    saved = bs.SemLock.__init__
    bs.SemLock.__init__ = lambda self, k, val, mx, ctx=None: seen.append((k, val, mx))
    try:
        if kind == 0:
            bs.Lock(ctx=object())
            exp = (bs.SEMAPHORE, 1, 1)
        elif kind == 1:
            bs.RLock(ctx=object())
            exp = (bs.RECURSIVE_MUTEX, 1, 1)
        elif kind == 2:
            bs.Semaphore(v, ctx=object())
            exp = (bs.SEMAPHORE, v, bs.SEM_VALUE_MAX)
        else:
            bs.BoundedSemaphore(v, ctx=object())
            exp = (bs.SEMAPHORE, v, v)
    finally:
        bs.SemLock.__init__ = saved
    return seen == [exp] or fail('C17:wrapper-passes-wrong-kind-value-or-bound')


def _semlocks(obj):
    import billiard.synchronize as bs
    if isinstance(obj, bs.SemLock):
        return [obj]
    if isinstance(obj, bs.Condition):
        return [obj._lock, obj._sleeping_count, obj._woken_count, obj._wait_semaphore]
    if isinstance(obj, bs.Event):
        return _semlocks(obj._cond) + [obj._flag]
    raise TypeError(obj)


def _fork(kind, depth, want):
    """Across processes: a child forked while the parent holds a primitive starts with its own, empty ownership record (what
    SemLock registers with util.register_after_fork), otherwise the child's copy of an RLock / of a Condition's lock counts the
    parent's acquisitions as its own and admits a second holder.  The real SemLock.__init__ and the real C semaphore run; the
    child's start is played in-process by running the after-fork hooks registered for the new objects, as _bootstrap does."""
    import billiard
    import billiard.util as bu
    from harness.hbase import fail
    ctx = billiard.get_context('fork')
    before = set(bu._afterfork_registry.keys())
    if kind == 0:
        obj = ctx.Lock()
    elif kind == 1:
        obj = ctx.RLock()
    elif kind == 2:
        obj = ctx.Semaphore(3)
    elif kind == 3:
        obj = ctx.BoundedSemaphore(3)
    elif kind == 4:
        obj = ctx.Condition()
    else:
        obj = ctx.Event()
    sls = _semlocks(obj)
    holder = sls[0]
    n = depth if kind in (1, 2, 3, 4) else min(depth, 1)      # a plain Lock is taken once; an Event's lock is not held across calls
    if kind == 5:
        n = 0
    for _ in range(n):
        holder.acquire()
    if n and holder._semlock._count() != n:
        return fail('C17:fork:harness-count')
    # the child: run the hooks registered since `before`, in registration order (util._run_after_forkers)
    items = sorted((k, v) for k, v in list(bu._afterfork_registry.items()) if k not in before)
    for (index, ident, func), o in items:
        func(o)
    for sl in sls:
        if sl._semlock._count() != 0 or sl._semlock._is_mine():
            return fail('C17:fork:child-inherits-the-parent-ownership-record')
    if want and n:
        return False
    return True


def h_fork(kind: int, depth: int) -> bool:
    """
    pre: 0 <= kind <= 5 and 0 <= depth <= 2
    post: _
    """
    from harness.hbase import pick, untraced
    kind, depth = pick(kind, 0, 5), pick(depth, 0, 2)
    with untraced():          # nothing symbolic is left: the constructors (random names, C calls) run outside the tracer
        return _fork(kind, depth, False)


def h_fork_twin(kind: int, depth: int) -> bool:
    """
    pre: 0 <= kind <= 5 and 0 <= depth <= 2
    post: _
    """
    from harness.hbase import pick, untraced
    kind, depth = pick(kind, 0, 5), pick(depth, 0, 2)
    with untraced():
        return _fork(kind, depth, True)


def v_conformance(tier):
    """model vs implementation: witness runs found by the solver (a notified waiter returning True; an event waiter
    seeing the flag) are replayed step by step against the real classes in real threads"""
    done = 0
    notes = []
    for build in ('cond', 'event'):
        if build == 'cond':
            nw, nops = 2, 1
            sysm, cons, info = cond_system(nw, nops)
            K = cond_bound(nw, nops)
            base = {'kind': 'cond', 'nw': nw, 'nops': nops, 'value_threads': [True] * nw + [False]}

            def witness(states):
                fin = states[-1]
                return z3.And(*([sysm.ended(fin, i) for i in range(nw + 1)] + [fin['loc'][0]['$ret'] == BVV(1)]))
        else:
            roles = ['wait', 'set', 'clear']
            sysm, cons, info = event_system(roles)
            K = event_bound(roles)
            base = {'kind': 'event', 'roles': roles, 'value_threads': [True, False, False]}

            def witness(states):
                fin = states[-1]
                return z3.And(sysm.ended(fin, 0), fin['loc'][0]['$ret'] == BVV(1))
        w = bmc.check_property(sysm, K, witness, cons, 300)
        if w['status'] != 'violated':
            return {'status': 'unknown', 'messages': ['no witness run for %s' % build]}
        spec = dict(base)
        spec.update(property='conformance-witness', schedule=w['schedule'], syms=w['syms'], final=w['final'],
                    lengths=[len(p) for p in sysm.threads], err_expected=False)
        try:
            replay(spec)
        except Diverged as e:
            return {'status': 'error', 'messages': ['model and implementation diverge on a witness run (%s): %s' % (build, e)]}
        done += 1
        notes.append('%s: %d scheduled steps conformed' % (build, len([s for s in w['schedule'] if s['thread'] != 15])))
    return {'status': 'confirmed', 'cases': done, 'traces_validated': done, 'nontrivial_witness': True, 'detail': '; '.join(notes),
            'solver_queries': bmc.STATS['queries'], 'solver_time_s': round(bmc.STATS['time'], 2)}


# ---------------------------------------------------------------------------
# "across processes": a primitive handed to a spawned child is rebuilt there from its pickled state; the rebuilt object must be
# the SAME primitive (same kernel semaphores, same roles inside a Condition), with working acquire/release

def _transfer(kind, want):
    import billiard
    import billiard.context as bctx
    import billiard.synchronize as bs
    from harness.hbase import fail
    ctx = billiard.get_context('spawn')
    if kind == 0:
        obj = ctx.Lock()
    elif kind == 1:
        obj = ctx.RLock()
    elif kind == 2:
        obj = ctx.Semaphore(2)
    elif kind == 3:
        obj = ctx.BoundedSemaphore(2)
    elif kind == 4:
        obj = ctx.Condition()
    else:
        obj = ctx.Event()

    def rebuild(o):
        # what pickling for a spawned child does: __getstate__ under a spawning popen, __setstate__ on a fresh object (nested
        # primitives of a Condition / Event travel the same way)
        new = type(o).__new__(type(o))
        if isinstance(o, bs.SemLock):
            new.__setstate__(o.__getstate__())
        elif isinstance(o, bs.Condition):
            st = o.__getstate__()
            new.__setstate__(tuple(rebuild(x) for x in st))
        else:
            new.__dict__.update({k: (rebuild(v) if isinstance(v, (bs.SemLock, bs.Condition)) else v) for k, v in o.__dict__.items()})
        return new
    saved = bctx.get_spawning_popen()
    bctx.set_spawning_popen(object())
    try:
        child = rebuild(obj)
    finally:
        bctx.set_spawning_popen(saved)
    a, b = _semlocks(obj), _semlocks(child)
    if len(a) != len(b):
        return fail('C17:transfer:structure-differs')
    for x, y in zip(a, b):
        # the same kernel semaphore in the same role: taking it through the child's copy is seen through the parent's
        if (x._semlock.kind, x._semlock.maxvalue) != (y._semlock.kind, y._semlock.maxvalue):
            return fail('C17:transfer:kind-or-bound-differs')
        before = x._semlock._get_value()
        if before > 0:
            if not y.acquire(False):
                return fail('C17:transfer:rebuilt-primitive-cannot-be-acquired')
            if x._semlock._get_value() != before - 1:
                return fail('C17:transfer:rebuilt-primitive-is-not-the-same-semaphore')
            y.release()
        else:
            y.release()
            if x._semlock._get_value() != before + 1:
                return fail('C17:transfer:rebuilt-primitive-is-not-the-same-semaphore')
            if not y.acquire(False):
                return fail('C17:transfer:rebuilt-primitive-cannot-be-acquired')
        if x._semlock._get_value() != before:
            return fail('C17:transfer:value-not-restored')
    if want:
        return False
    return True


def h_transfer(kind: int) -> bool:
    """
    pre: 0 <= kind <= 5
    post: _
    """
    from harness.hbase import pick, untraced
    kind = pick(kind, 0, 5)
    with untraced():
        return _transfer(kind, False)


def h_transfer_twin(kind: int) -> bool:
    """
    pre: 0 <= kind <= 5
    post: _
    """
    from harness.hbase import pick, untraced
    kind = pick(kind, 0, 5)
    with untraced():
        return _transfer(kind, True)


# ---------------------------------------------------------------------------
# Condition.wait_for (a loop around wait() with deadline arithmetic) and wait() under a recursively held lock: CrossHair
# over the real methods, the waits / semaphore operations played by recording stand-ins, the clock symbolic

class _WaitForWorld:
    def __init__(self, nd, t0):
        self.nd = nd
        self.now = t0
        self.waits = []          # (timeout passed, instant of the call)
        self.pred_calls = 0
        self.pred_true_from = None
        self.truth = False
        self.bad = None

    def clock(self):
        return self.now


def _wait_for(code, t0, timeout, d, want):
    import billiard.synchronize as bs
    from harness.hbase import NDCode, Prune, fail
    nd = NDCode(code)
    w = _WaitForWorld(nd, t0)
    tmo = None if timeout < 0 else timeout
    token = ('predicate-value',)
    cond = bs.Condition.__new__(bs.Condition)
    maxw = 3

    def predicate():
        w.pred_calls += 1
        if w.truth:
            return token
        return 0          # falsy, and not False: wait_for returns the predicate's value

    def wait(timeout=None):
        k = len(w.waits)
        if k >= maxw:
            raise Prune()
        w.waits.append((timeout, w.now))
        if w.truth:
            w.bad = 'C17:wait_for:waits-although-the-predicate-already-holds'
        notified = nd.flag() if timeout is not None else True
        if timeout is None:
            w.now += d[k]
        elif notified:
            if d[k] > timeout:
                raise Prune()            # a notification arrives within the time asked for
            w.now += d[k]
        else:
            if d[k] < timeout:
                raise Prune()            # a timed-out wait lasted at least what was asked for
            w.now += d[k]
        # the state change that came with the wake-up (a notification without one is a spurious wake-up, also allowed)
        if nd.flag() or (timeout is None and k == maxw - 1):
            w.truth = True
        return notified

    cond.wait = wait
    saved = bs.monotonic
    bs.monotonic = w.clock
    try:
        if nd.flag():
            w.truth = True           # the predicate holds from the start
        start = w.now
        try:
            res = bs.Condition.wait_for(cond, predicate, tmo)
        except Prune:
            return True
    finally:
        bs.monotonic = saved
    # oracle, from the statement of threading.Condition.wait_for which the class mirrors: the value returned is the predicate's last value; it is truthy
    # iff the predicate held at an evaluation; no wait is started once the deadline has passed or with more than the time left; a falsy
    # result is given only once the deadline has passed; the predicate is re-evaluated after every wake-up
    if w.bad:
        return fail(w.bad)
    if w.truth and res is not token:
        return fail('C17:wait_for:result-is-not-the-predicate-value')
    if not w.truth and res:
        return fail('C17:wait_for:truthy-although-the-predicate-never-held')
    if w.pred_calls != len(w.waits) + 1:
        return fail('C17:wait_for:predicate-not-re-evaluated-after-each-wait')
    for (t, at) in w.waits:
        if tmo is None:
            if t is not None:
                return fail('C17:wait_for:timed-wait-without-a-timeout')
        else:
            if t is None or t != start + tmo - at or t <= 0:
                return fail('C17:wait_for:wait-not-bounded-by-the-time-left')
    if not w.truth:
        if tmo is None:
            return fail('C17:wait_for:gave-up-without-a-timeout')
        if w.now < start + tmo:
            return fail('C17:wait_for:gave-up-before-the-deadline')
    if want and not (len(w.waits) >= 2 and w.truth):
        return True
    return not want


def h_wait_for(code: int, t0: int, timeout: int, d0: int, d1: int, d2: int) -> bool:
    """
    pre: 0 <= code < 10 ** 40 and 1 <= t0 <= 50 and -1 <= timeout <= 30 and 0 <= d0 <= 40 and 0 <= d1 <= 40 and 0 <= d2 <= 40
    post: _
    """
    return _wait_for(code, t0, timeout, (d0, d1, d2), False)


def h_wait_for_twin(code: int, t0: int, timeout: int, d0: int, d1: int, d2: int) -> bool:
    """
    pre: 0 <= code < 10 ** 40 and 1 <= t0 <= 50 and -1 <= timeout <= 30 and 0 <= d0 <= 40 and 0 <= d1 <= 40 and 0 <= d2 <= 40
    post: _
    """
    return _wait_for(code, t0, timeout, (d0, d1, d2), True)


class _RecSem:
    """recording stand-in for a SemLock-based object"""

    def __init__(self, name, log, script):
        self.name, self.log, self.script = name, log, script
        self._semlock = self
        self.held = 0

    def acquire(self, block=True, timeout=None):
        self.log.append((self.name, 'acquire', block, timeout))
        if self.name == 'lock':
            self.held += 1
            return True
        if self.name == 'wait':
            mode = self.script['wake']
            if mode == 2:
                raise KeyboardInterrupt()
            return mode == 1
        return True

    def release(self):
        self.log.append((self.name, 'release'))
        if self.name == 'lock':
            self.held -= 1

    def _is_mine(self):
        return self.held > 0

    def _count(self):
        return self.held


def _wait_rec(depth, wake, timeout, want):
    """wait() under a lock held `depth` times by the caller (an RLock): the waiter announces itself once, lets go of every level before
    sleeping on the wake-up semaphore with the caller's timeout, and - however the sleep ends (woken, timed out, interrupted) - acknowledges
    once and takes every level back, so that the caller still owns the lock `depth` times"""
    import billiard.synchronize as bs
    from harness.hbase import fail
    log = []
    script = {'wake': wake}
    cond = bs.Condition.__new__(bs.Condition)
    cond._lock = _RecSem('lock', log, script)
    cond._sleeping_count = _RecSem('sleeping', log, script)
    cond._woken_count = _RecSem('woken', log, script)
    cond._wait_semaphore = _RecSem('wait', log, script)
    cond._lock.held = depth
    tmo = None if timeout < 0 else timeout
    raised = None
    try:
        res = bs.Condition.wait(cond, tmo)
    except AssertionError:
        if depth == 0:
            return (not log) or fail('C17:wait:semaphores-touched-without-owning-the-lock')
        return fail('C17:wait:assertion-failed-although-the-lock-is-owned')
    except KeyboardInterrupt as e:
        raised = e
        res = None
    if depth == 0:
        return fail('C17:wait:accepted-without-owning-the-lock')
    exp = ([('sleeping', 'release')] + [('lock', 'release')] * depth + [('wait', 'acquire', True, tmo)]
           + [('woken', 'release')] + [('lock', 'acquire', True, None)] * depth)
    norm = [e if e[0] != 'lock' or e[1] != 'acquire' else ('lock', 'acquire', True, None) for e in log]
    if norm != exp:
        return fail('C17:wait:recursive-lock-not-released-and-retaken-level-by-level')
    if cond._lock.held != depth:
        return fail('C17:wait:ownership-depth-changed-across-wait')
    if wake == 2:
        if raised is None:
            return fail('C17:wait:interrupt-swallowed')
    elif res is not (wake == 1):
        return fail('C17:wait:result-is-not-the-wake-up-result')
    if want and depth >= 2 and wake == 2:
        return False
    return True


def h_wait_recursive(depth: int, wake: int, timeout: int) -> bool:
    """
    pre: 0 <= depth <= 4 and 0 <= wake <= 2 and -1 <= timeout <= 20
    post: _
    """
    from harness.hbase import pick
    return _wait_rec(pick(depth, 0, 4), pick(wake, 0, 2), timeout, False)


def h_wait_recursive_twin(depth: int, wake: int, timeout: int) -> bool:
    """
    pre: 0 <= depth <= 4 and 0 <= wake <= 2 and -1 <= timeout <= 20
    post: _
    """
    from harness.hbase import pick
    return _wait_rec(pick(depth, 0, 4), pick(wake, 0, 2), timeout, True)

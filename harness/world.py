"""The pool world: the real billiard.pool.Pool built by its real constructor over
fake processes, fake pipes and a fake clock (threads=False, context=FakeCtx()).

Everything in here is environment: the operating system's side of the pool
(process table, pipes, clock, signals) and the worker processes' side of the
message protocol.  What worker stubs may emit is the grammar established for
the real Worker.workloop by harness/c03.py (assume/guarantee, DESIGN.md 3.4).
"""
import collections
import itertools
import threading

import billiard.pool as bp
from billiard.einfo import ExceptionInfo
from harness.hbase import Prune, trace

# --------------------------------------------------------------------------
# formatting / logging cuts (DESIGN.md 3.1): str.format on a symbolic int
# realises it, so the text producers are replaced by recorders.
STATUS_LOG = []
LOG = []


def _human_status(status):
    STATUS_LOG.append(status)
    return '<status>'


def _quiet(*a, **k):
    return None


def _error(msg, *a, **k):
    LOG.append(msg)


bp.human_status = _human_status
bp.error = _error
bp.debug = _quiet
bp.warning = _quiet
bp.util.debug = _quiet


class WouldBlock(Exception):
    """apply_async would block on the slot semaphore"""


class VSemaphore(bp.LaxBoundedSemaphore):
    """The real LaxBoundedSemaphore; only the *blocking* branch of acquire is
    replaced (raise instead of sleeping for ever in a single-threaded run)."""

    def acquire(self, blocking=True, timeout=None):
        if self._value == 0 and blocking:
            raise WouldBlock()
        return bp.LaxBoundedSemaphore.acquire(self, blocking, timeout)


class FakePopen:
    def __init__(self, proc, pid):
        self.proc = proc
        self.pid = pid
        self.returncode = None
        self.sentinel = None

    def poll(self, flag=0):
        return self.returncode

    def wait(self, timeout=None):
        w = self.proc.world
        w.waits.append((self.pid, timeout))
        # a process that got TERM and obeys it is gone within the wait
        if self.returncode is None and self.proc.obeys_term and self.proc.got_term:
            self.proc.die(-15)
        return self.returncode

    def terminate(self):
        self.proc.signal(15)

    def close(self):
        pass


class FakeProc:
    world = None

    def __init__(self, group=None, target=None, name=None, args=(), kwargs={}, daemon=None, **kw):
        self._target = target
        self._popen = None
        self._name = name or 'Process-x'
        self.daemon = daemon
        self._controlled_termination = False
        # worker-side model state
        self.state = 'idle'         # idle | busy | draining | dead
        self.cur = None             # (job, i, fun, args, kwargs) while busy
        self.completed = 0
        self.got_term = False
        self.got_kill = False
        self.soft_signals = 0
        self.obeys_term = True
        self.joined = 0
        self.taken = []             # (job, i) of every task taken
        self.sent_ready = 0

    @property
    def name(self):
        return self._name

    @name.setter
    def name(self, v):
        self._name = v

    @property
    def pid(self):
        return self._popen and self._popen.pid

    @property
    def exitcode(self):
        return None if self._popen is None else self._popen.returncode

    def start(self):
        w = self.world
        self._popen = FakePopen(self, w.next_pid)
        w.next_pid += 1
        w.procs.append(self)
        w.started += 1
        if w.start_hook is not None:
            w.start_hook(self)          # Process.start() takes time: other parent threads run while the supervisor is inside it

    def join(self, timeout=None):
        self.joined += 1
        if self._popen is not None and self._popen.returncode is None and self.world.join_hook is not None:
            self.world.join_hook(self)       # the caller blocks until this process has exited

    def is_alive(self):
        return self._popen is not None and self._popen.returncode is None
    _is_alive = is_alive

    def terminate(self):
        self._popen.terminate()

    def terminate_controlled(self):
        self._controlled_termination = True
        self.terminate()

    # -- world side ---------------------------------------------------------
    def signal(self, sig):
        w = self.world
        w.signals.append((self.pid, sig))
        if self._popen.returncode is not None:
            return
        if sig == 15:
            self.got_term = True
            if self.obeys_term and self.state != 'busy':
                self.die(-15)       # an idle worker honours TERM at once (G_worker, harness/c03.py)
        elif sig == 9:
            self.got_kill = True
            self.die(-9)
        elif sig == bp.SIG_SOFT_TIMEOUT:
            self.soft_signals += 1

    def die(self, status):
        if self._popen.returncode is None:
            self._popen.returncode = status
            self.state = 'dead'
            self.world.deaths.append((self.pid, status))


class FakeConnEnd:
    def __init__(self, q, fd):
        self.q = q
        self.fd = fd
        self.closed = False

    def fileno(self):
        return self.fd

    def send(self, obj):
        self.q.append(obj)

    def recv(self):
        return self.q.popleft()

    def poll(self, timeout=0):
        if not self.q and timeout and self.idle_hook is not None:
            self.idle_hook(timeout)          # the caller would sleep in poll(): the rest of the world moves
        return bool(self.q)
    idle_hook = None

    def close(self):
        self.closed = True
    send_offset = None


class FakeSimpleQueue:
    world = None

    def __init__(self):
        w = self.world
        self.q = collections.deque()
        self._reader = FakeConnEnd(self.q, w.next_fd)
        self._writer = FakeConnEnd(self.q, w.next_fd + 1)
        w.next_fd += 2
        self._rlock = threading.Lock()
        self._wlock = threading.Lock()
        self.closed = False

    def put(self, obj):
        self.q.append(obj)

    def get(self):
        return self.q.popleft()

    def close(self):
        self.closed = True


class Hang(Exception):
    """the caller would block for ever (a budgeted wait ran out with nothing left that could end it)"""


class ReadLock:
    """The task queue's read lock as the parent sees it.  A worker waiting for a job sits in SimpleQueue.get_payload() -
    `with self._rlock: return self._reader.recv_bytes()` - so while some live worker is idle and the queue is empty, that
    worker holds the lock and lets go only when it is sent something (a task, a sentinel) or dies.  A parent-side
    acquire therefore lets the workers and the other parent threads move (World.blocked_hook) until no idle worker is
    left; if nothing can move any more the acquire would block for ever."""

    def __init__(self, world, q):
        self.world = world
        self.q = q
        self.parent_holds = False

    def _idle(self):
        return [x for x in self.world.procs if x.exitcode is None and x.state == 'idle']

    def acquire(self, blocking=True, timeout=None):
        w = self.world
        for _ in range(12):
            idle = self._idle()
            if not idle:
                self.parent_holds = True
                return True
            if not blocking:
                return False
            if self.q:
                w.w_take(idle[0])          # the holder receives what is in the pipe and lets go of the lock
                continue
            hook = w.blocked_hook
            if hook is None or not hook():
                break
        raise Hang('parent blocks on the task-queue read lock held by an idle worker')

    def release(self):
        self.parent_holds = False

    def __enter__(self):
        return self.acquire()

    def __exit__(self, *a):
        self.release()


class FakeValue:
    def __init__(self, *a):
        self.value = 0
        self._l = threading.RLock()

    def get_lock(self):
        return self._l


class FakeEvent:
    def __init__(self):
        self.flag = False

    def set(self):
        self.flag = True

    def is_set(self):
        return self.flag


class FakeCtx:
    Process = FakeProc

    def SimpleQueue(self):
        return FakeSimpleQueue()

    def Value(self, *a):
        return FakeValue()

    def Event(self):
        return FakeEvent()


class FakeOS:
    """os as seen by billiard.pool: process groups and killpg are the world's."""

    def __init__(self, world, real):
        self._w = world
        self._real = real

    def __getattr__(self, name):
        return getattr(self._real, name)

    def getpgid(self, pid):
        return self._w.pgid_of(pid)

    def killpg(self, pgid, sig):
        self._w.kill(pgid, sig)

    def kill(self, pid, sig):
        self._w.kill(pid, sig)

    def getpid(self):
        return 1


class FakeTime:
    def __init__(self, world, real):
        self._w = world
        self._real = real

    def __getattr__(self, name):
        return getattr(self._real, name)

    def sleep(self, s):
        self._w.sleeps.append(s)


import os as _real_os
import time as _real_time


class World:
    def __init__(self, leaders=False):
        self.procs = []
        self.signals = []
        self.deaths = []
        self.waits = []
        self.sleeps = []
        self.now = 1
        self.next_pid = 1000
        self.next_fd = 10
        self.started = 0
        self.leaders = leaders      # workers are process-group leaders
        self.pool = None
        self.out_times = collections.deque()   # enqueue instant of every pending worker message
        self.drain_bound = None     # assumption A-drain: no message stays unread this long
        self.join_hook = None
        self.start_hook = None      # runs inside Process.start() of every worker started from now on
        self.blocked_hook = None    # lets the other parent threads move while the caller blocks on a lock; returns True if something moved
        self.guard_waits = 0

    # -- OS side -------------------------------------------------------------
    def proc_by_pid(self, pid):
        for p in self.procs:
            if p.pid == pid:
                return p
        return None

    def pgid_of(self, pid):
        p = self.proc_by_pid(pid)
        if p is None or p.exitcode is not None:
            raise OSError(3, 'No such process')
        return pid if self.leaders else 1

    def kill(self, pid, sig):
        p = self.proc_by_pid(pid)
        if p is None or p.exitcode is not None:
            self.signals.append((pid, sig))
            raise OSError(3, 'No such process')
        p.signal(sig)

    # -- pool side -----------------------------------------------------------
    def make_pool(self, n, **kw):
        FakeProc.world = self
        FakeSimpleQueue.world = self
        bp.job_counter = itertools.count()
        bp.monotonic = lambda: self.now
        import billiard.common as _bc
        _bc.monotonic = bp.monotonic     # restart_state.step reads the same clock
        bp._kill = self.kill
        bp.os = FakeOS(self, _real_os)
        bp.time = FakeTime(self, _real_time)
        from harness.hbase import cheap_einfo
        cheap_einfo()              # cut: traceback text formatting (C12 owns it)
        del STATUS_LOG[:]
        del LOG[:]
        kw.setdefault('threads', False)
        keep_finalizer = kw.pop('keep_finalizer', False)
        p = bp.Pool(n, context=FakeCtx(), **kw)
        if not keep_finalizer:
            p._terminate.cancel()   # never let a Finalize run on stale state
        if isinstance(p.lost_worker_timeout, float) and p.lost_worker_timeout == int(p.lost_worker_timeout):
            # cut: 10.0 -> 10, clock arithmetic stays in the integers (a symbolic
            # float caps every CrossHair verdict at "unknown")
            p.lost_worker_timeout = int(p.lost_worker_timeout)
        self.pool = p
        p._inqueue._rlock = ReadLock(self, p._inqueue.q)     # held by a worker that waits for a job (see ReadLock)
        self.told_others = 0
        self._real_tell_others = p._task_handler.tell_others
        return p

    # -- events --------------------------------------------------------------
    def feed(self, put_fail_at=-1, put_fail_kind=0):
        """the task-feeder thread's turn: the real TaskHandler.body over what is
        queued now.  tell_others is deferred (the thread would stay blocked on
        the queue); the sentinel only ends this turn."""
        p = self.pool
        th = p._task_handler
        count = [0]
        orig_put = th.put

        def put(task):
            k = count[0]
            count[0] += 1
            if k == put_fail_at:
                if put_fail_kind == 0:
                    raise ValueError('cannot pickle task')
                raise IOError(32, 'Broken pipe')
            return orig_put(task)
        th.put = put
        th.tell_others = self._count_tell_others
        try:
            p._taskqueue.put(None)
            th.body()
        finally:
            th.put = orig_put
            th.tell_others = self._real_tell_others

    def _count_tell_others(self):
        self.told_others += 1

    def live_workers(self):
        return [w for w in self.pool._pool if w.exitcode is None]

    def w_take(self, w):
        """worker w reads the next request from the shared in-queue and
        announces acceptance (ACK) -- or exits cleanly on the sentinel."""
        p = self.pool
        if w.state != 'idle' or w.exitcode is not None:
            raise Prune()
        if not p._inqueue.q:
            raise Prune()
        req = p._inqueue.q.popleft()
        if req is None:
            # sentinel: the loop is left through SystemExit; its `finally` still waits until the parent has
            # consumed this worker's results (or 300 x 0.1 s)
            ctr = p._on_ready_counters.get(w.pid)
            if ctr is None or ctr.value >= w.completed:
                trace('worker', w.pid, 'got sentinel -> exit 0')
                w.die(0)
            else:
                trace('worker', w.pid, 'got sentinel, waits for its results to be consumed')
                w.state = 'leaving'
            return None
        type_, args_ = req
        assert type_ == bp.TASK
        job, i, fun, args, kwargs = args_
        w.cur = args_
        w.state = 'busy'
        w.taken.append((job, i))
        self.emit((bp.ACK, (job, i, self.now, w.pid, None)))
        trace('worker', w.pid, 'takes', job, i, 'ACK')
        return (job, i)

    def w_done(self, w):
        """worker w finishes its task and sends the one READY for it"""
        p = self.pool
        if w.state != 'busy' or w.exitcode is not None:
            raise Prune()
        job, i, fun, args, kwargs = w.cur
        try:
            result = (True, fun(*args, **kwargs))
        except Exception:
            result = (False, ExceptionInfo())
        if getattr(self, 'pickle_results', False):
            import pickle
            result = pickle.loads(pickle.dumps(result))      # the result crosses the pipe by value
        self.emit((bp.READY, (job, i, result, p._inqueue._writer.fileno())))
        w.cur = None
        w.completed += 1
        w.sent_ready += 1
        trace('worker', w.pid, 'READY', job, i, result[0])
        if p._maxtasksperchild and w.completed >= p._maxtasksperchild:
            w.state = 'draining'
        else:
            w.state = 'idle'
        return (job, i)

    def w_try_recycle(self, w, waited_out=False):
        """a worker that reached its quota leaves once the parent has consumed
        its results (on_ready_counter) -- or after the 30 s guard"""
        if w.state != 'draining' or w.exitcode is not None:
            raise Prune()
        ctr = self.pool._on_ready_counters.get(w.pid)
        if ctr is not None and ctr.value >= w.completed:
            w.die(bp.EX_RECYCLE)
            return 'consumed'
        if waited_out:
            self.guard_waits = getattr(self, 'guard_waits', 0) + 1
            w.die(bp.EX_RECYCLE)
            return 'guard'
        raise Prune()

    def w_leave(self, w):
        """a worker that got the sentinel leaves once its results were consumed; if they never are
        credited to it, it waits out the 30 s guard (recorded)"""
        if w.state != 'leaving' or w.exitcode is not None:
            raise Prune()
        ctr = self.pool._on_ready_counters.get(w.pid)
        if ctr is not None and ctr.value < w.completed:
            self.guard_waits += 1
            trace('worker', w.pid, 'waited out the 30 s consumption guard')
        w.die(0)

    def w_exit(self, w, status):
        """worker w dies (mid-task when busy, between jobs when idle)"""
        if w.exitcode is not None:
            raise Prune()
        trace('worker', w.pid, 'dies with', status, 'while', w.state)
        w.die(status)

    def emit(self, msg):
        self.pool._outqueue.q.append(msg)
        self.out_times.append(self.now)

    def rh(self):
        """result-handler turn: one message"""
        p = self.pool
        if not p._outqueue.q:
            raise Prune()
        if self.out_times:
            self.out_times.popleft()
        trace('RH handles', p._outqueue.q[0][0], p._outqueue.q[0][1][:2] if p._outqueue.q[0] else None)
        p.handle_result_event()

    def drain_results(self):
        p = self.pool
        n = 0
        while p._outqueue.q:
            if self.out_times:
                self.out_times.popleft()
            p.handle_result_event()
            n += 1
            if n > 100:
                raise AssertionError('result queue does not drain')

    def tick(self):
        trace('TICK at', self.now)
        self.pool._maintain_pool()

    def scan(self):
        trace('SCAN at', self.now)
        self.pool._timeout_handler.handle_event()

    def adv(self, dt):
        if self.drain_bound is not None and self.out_times:
            if self.now + dt - self.out_times[0] >= self.drain_bound:
                raise Prune()     # outside assumption A-drain
        self.now = self.now + dt


def val(x):
    """the task function used throughout: tags its result with its argument"""
    return ('r', x)


def val_or_raise(x, bad):
    if bad:
        raise ValueError(('boom', x))
    return ('r', x)


def einfo_type(v):
    """exception type recorded in a result's ExceptionInfo (None if not one)"""
    return getattr(v, 'type', None) if isinstance(v, ExceptionInfo) else None


class Observer:
    """What a caller sees on a job handle, polled without blocking."""

    def __init__(self, handle, kind):
        self.h = handle
        self.kind = kind
        self.outcomes = []      # (success, value-or-ExceptionInfo) in the order seen
        self.lost = False
        self.done = False

    def observe(self):
        h = self.h
        if self.kind in ('apply', 'map'):
            if h.ready() and not self.outcomes:
                self.outcomes.append((h._success, h._value))
                self.done = True
        else:
            while not self.done:
                try:
                    v = h.next(timeout=0)
                    self.outcomes.append((True, v))
                except bp.TimeoutError:
                    break
                except StopIteration:
                    self.done = True
                except Exception as exc:
                    v = exc.args[0] if exc.args else None
                    self.outcomes.append((False, v))
        from billiard.exceptions import WorkerLostError
        for ok, v in self.outcomes:
            if not ok and einfo_type(v) is WorkerLostError:
                self.lost = True
        return self

    def failed_with(self, exc_type):
        return any((not ok) and einfo_type(v) is exc_type for ok, v in self.outcomes)

    def complete(self):
        return self.done

    def values(self):
        out = []
        for ok, v in self.outcomes:
            if ok:
                if self.kind == 'map':
                    out.extend(v)
                else:
                    out.append(v)
        return out


def int_timeout(handle):
    """cut: a handle's float default lost-worker timeout (10.0) becomes the int of
    the same value, so that clock arithmetic stays in the integers (DESIGN.md 3.1)"""
    t = handle._lost_worker_timeout
    if isinstance(t, float):
        assert t == int(t)
        handle._lost_worker_timeout = int(t)


def _drain_until_sentinel(self):
    """the result handler's main loop: handles messages until it reads its sentinel (then finish_at_shutdown takes over)"""
    p = self.pool
    n = 0
    while p._outqueue.q:
        if p._outqueue.q[0] is None:
            p._outqueue.q.popleft()
            if self.out_times:
                self.out_times.popleft()
            return True
        if self.out_times:
            self.out_times.popleft()
        p.handle_result_event()
        n += 1
        if n > 100:
            raise AssertionError('result queue does not drain')
    return False


World.drain_until_sentinel = _drain_until_sentinel

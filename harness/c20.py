"""C20 - manager proxies behave like the local object; referents live as long as proxies.

Real code: managers.SyncManager/BaseManager.get_server/_create, Server.handle_request/
serve_client/create/incref/decref/number_of_objects/accept_connection, BaseProxy.__init__/_connect/
_callmethod/_incref/_decref/_getvalue, RebuildProxy, dispatch, convert_to_error, MakeProxyType.
An in-process transport is registered under a serializer name of its own
(managers.listener_client is the library's extension point): a client send
followed by recv runs one turn of the real server on the same thread; messages
are deep-copied in transit.  The challenge functions are replaced by key
comparison (C18 owns them).
"""
import collections
import copy
import threading
from typing import List

import billiard.managers as bm
import billiard.connection as bc
from harness.hbase import fail, tier, Prune, ND, realize, untraced, PART, NPART, NDCode, CODEMAX

K = tier(2, 3)
SERVERS = {}
NEXT = [0]


class ServerSide:
    """what the serving thread sees for one client connection"""

    def __init__(self, cli):
        self.cli = cli
        self.closed = False

    def recv(self):
        if not self.cli.to_server:
            raise EOFError()          # makes serve_client yield: the client has nothing more to say for now
        return self.cli.to_server.popleft()

    def send(self, msg):
        self.cli.to_client.append(copy.deepcopy(msg))

    def close(self):
        self.closed = True


CUR = {'proc': 'parent', 'crossed': False}
SERVING = [None]


class ClientConn:
    def __init__(self, server, authkey):
        self.owner = CUR['proc']        # the process that opened this connection
        self.server = server
        self.authkey = authkey
        self.to_server = collections.deque()
        self.to_client = collections.deque()
        self.mode = 'request'
        self.ss = ServerSide(self)
        self.dispatched = 0

    def send(self, msg):
        if self.owner != CUR['proc']:
            CUR['crossed'] = True       # a process talks on a connection another process opened: one request/reply stream for two
        self.to_server.append(copy.deepcopy(msg))

    def recv(self):
        if not self.to_client:
            SERVING[0] = id(self)          # the server thread that serves this connection (one thread per connection)
            try:
                if self.mode == 'request':
                    self.server.handle_request(self.ss)
                else:
                    self.server.serve_client(self.ss)
            except SystemExit:
                pass
        if not self.to_client:
            raise EOFError()
        return self.to_client.popleft()

    def close(self):
        pass


class FakeListener:
    def __init__(self, address=None, backlog=1, **kw):
        self.address = address

    def close(self):
        pass


def FakeClient(address, authkey=None):
    return ClientConn(SERVERS[address], authkey)


def _deliver(c, key):
    if c.cli.authkey != key:
        raise bc.AuthenticationError('bad key')


def _answer(c, key):
    pass


def setup():
    bm.listener_client['verif'] = (FakeListener, FakeClient)
    bm.connection.deliver_challenge = _deliver
    bm.connection.answer_challenge = _answer
    bm.util.debug = lambda *a, **k: None
    bm.util.info = lambda *a, **k: None
    NEXT[0] += 1
    addr = 'inproc-%d' % NEXT[0]          # a fresh address: BaseProxy caches one connection per address
    m = bm.SyncManager(address=addr, authkey=b'k', serializer='verif')
    srv = m.get_server()
    srv.stop_event = threading.Event()
    SERVERS[srv.address] = srv
    m._state.value = bm.State.STARTED
    srv.accept_connection = lambda c, name: setattr(c.cli, 'mode', 'serve')
    return m, srv


def _history(kind, ops, xs, wrong_key):
    with untraced():
        m, srv = setup()
        if kind == 'list':
            twin = [1, 2]
            first = m.list([1, 2])
        else:
            twin = {1: 10}
            first = m.dict({1: 10})
    ident = first._id
    proxies = [first]
    dead = 0
    for step in range(K):
        op = realize(ops[step])
        x = xs[step]
        if op == 5:
            # a client with the wrong key gets no dispatch
            n_before = srv.number_of_objects(None)
            try:
                bm.dispatch(FakeClient(srv.address, authkey=b'wrong' if wrong_key else b'k'), None, 'number_of_objects')
                ok = True
            except Exception:
                ok = False            # AuthenticationError reaches the client as a RemoteError
            if ok == wrong_key:
                return fail('C20:key:wrong-key-dispatched-or-right-key-refused')
            continue
        if op == 3:
            # copy a proxy the way pickling to another process does
            p = proxies[0]
            q = bm.RebuildProxy(type(p), p._token, 'verif', {'authkey': b'k'})
            proxies.append(q)
        elif op == 4:
            if len(proxies) <= 1:
                raise Prune()
            q = proxies.pop()
            q._close()
        else:
            p = proxies[len(proxies) - 1]
            if kind == 'list':
                calls = {0: ('append', (x,)), 1: ('__getitem__', (x,)), 2: ('pop', ())}
            else:
                calls = {0: ('__setitem__', (x, step)), 1: ('__getitem__', (x,)), 2: ('pop', (x,))}
            name, args = calls[op]
            try:
                exp = ('ret', getattr(twin, name)(*args))
            except Exception as e:
                exp = ('exc', type(e))
            try:
                got = ('ret', getattr(p, name)(*args))
            except Exception as e:
                got = ('exc', type(e))
            if got != exp:
                return fail('C20:call:result-differs-from-local-object:' + kind + ':' + name)
            if first._getvalue() != twin:
                return fail('C20:call:state-differs-from-local-object:' + kind)
        rc = srv.id_to_refcount.get(ident)
        if rc != len(proxies):
            return fail('C20:refcount:differs-from-live-proxies')
        if ident not in srv.id_to_obj:
            return fail('C20:lifetime:referent-disposed-while-proxies-exist')
    # a method that is not exposed is refused and not invoked
    try:
        first._callmethod('__class__')
        return fail('C20:exposed:unexposed-method-invoked')
    except Exception:
        pass
    # dropping the last proxies disposes of the referent
    while proxies:
        proxies.pop()._close()
    if ident in srv.id_to_obj or ident in srv.id_to_refcount:
        return fail('C20:lifetime:referent-kept-after-last-proxy-released')
    return True


def h_history(ops: List[int], xs: List[int], wrong_key: bool) -> bool:
    """
    pre: len(ops) == K and len(xs) == K and all(0 <= o <= 5 for o in ops) and all(0 <= x <= 2 for x in xs) and (NPART == 1 or ops[0] == (PART // 2) % 6)
    post: _
    """
    try:
        return _history(('list', 'dict')[PART % 2], ops, xs, wrong_key)
    except Prune:
        return True


# ---------------------------------------------------------------------------
# a typeid whose callable hands out an object the server already tracks (the documented get_queue idiom),
# and lock-like referents: the proxy passes the caller's arguments on exactly

class VLock:
    """a lock-like referent that records how it was called and never blocks"""

    def __init__(self):
        self.calls = []
        self.held = False

    def acquire(self, blocking=True, timeout=-1):
        self.calls.append((blocking, timeout))
        if self.held:
            return False
        self.held = True
        return True

    def release(self):
        self.held = False


SHARED = {}


def _get_shared():
    return SHARED['obj']


def _shared_and_locks(code, want):
    nd = NDCode(code)
    which = nd.draw(0, 1)
    with untraced():
        bm.SyncManager.register('vp_shared', callable=_get_shared, proxytype=bm.ListProxy)
        bm.SyncManager.register('vp_lock', callable=VLock, proxytype=bm.AcquirerProxy)
        m, srv = setup()
    if which == 0:
        SHARED['obj'] = [1, 2, 3]
        p1 = m.vp_shared()
        p2 = m.vp_shared()               # the same referent again
        ident = p1._id
        if p2._id != ident:
            raise Prune()
        if srv.id_to_refcount.get(ident) != 2:
            return fail('C20:refcount:second-proxy-to-a-tracked-object-not-counted')
        order = nd.draw(0, 1)
        first, second = (p1, p2) if order == 0 else (p2, p1)
        first._close()
        if want:
            return False
        if ident not in srv.id_to_obj or srv.id_to_refcount.get(ident) != 1:
            return fail('C20:lifetime:referent-disposed-while-proxies-exist')
        try:
            if second[0] != 1 or len(second) != 3:
                return fail('C20:call:result-differs-from-local-object:shared')
        except Exception:
            return fail('C20:lifetime:referent-disposed-while-proxies-exist')
        second._close()
        if ident in srv.id_to_obj:
            return fail('C20:lifetime:referent-kept-after-last-proxy-released')
        return True
    # lock-like referent: acquire(blocking, timeout) through the proxy == the same call on the local object
    lk = m.vp_lock()
    obj = srv.id_to_obj[lk._id][0]
    local = VLock()
    blocking = nd.flag()
    tsel = nd.draw(0, 3)
    timeout = (None, 0, 1, -1)[tsel]
    held = nd.flag()
    obj.held = local.held = held
    if timeout is None:
        exp = local.acquire(blocking)
        got = lk.acquire(blocking)
    else:
        exp = local.acquire(blocking, timeout)
        got = lk.acquire(blocking, timeout)
    if want:
        return False
    if got != exp:
        return fail('C20:call:result-differs-from-local-object:lock')
    if obj.calls != local.calls:
        return fail('C20:call:arguments-altered-by-the-proxy:lock')
    lk._close()
    return True


def h_shared_and_locks(code: int) -> bool:
    """
    pre: 0 <= code < CODEMAX
    post: _
    """
    try:
        return _shared_and_locks(code, False)
    except Prune:
        return True


def h_shared_and_locks_twin(code: int) -> bool:
    """
    pre: 0 <= code < CODEMAX
    post: _
    """
    try:
        return _shared_and_locks(code, True)
    except Prune:
        return True


# ---------------------------------------------------------------------------
# proxies in a forked child: the child's whole life runs in-process through the real BaseProcess._bootstrap (registry cleared,
# real after-fork hooks, target, real exit function with its finalizer passes), then the parent goes on

def _child_life(target):
    import sys
    import multiprocessing.util as mu
    import billiard.process as bproc
    import billiard.util as bu
    saved = (bproc._current_process, bproc._children, bproc._process_counter, sys.stdin, dict(mu._finalizer_registry), bu.info, bu.debug)
    CUR['proc'] = 'child'
    try:
        sys.stdin = None
        P = type('P', (bproc.BaseProcess,), {'_start_method': None})
        return P(target=target)._bootstrap()
    finally:
        CUR['proc'] = 'parent'
        mu._exiting = False
        mu._finalizer_registry.clear()
        mu._finalizer_registry.update(saved[4])
        (bproc._current_process, bproc._children, bproc._process_counter, sys.stdin) = saved[:4]


def _fork_child(code, want):
    nd = NDCode(code)
    parent_called = nd.flag()          # the parent has already talked to the server through the proxy (a connection exists)
    nprox = 1 + nd.draw(0, 1)
    child_op = nd.draw(0, 2)           # what the child does with the inherited proxy: nothing, a read, a write
    parent_after = nd.flag()
    with untraced():
        CUR.update(proc='parent', crossed=False)
        m, srv = setup()
        twin = [1, 2]
        first = m.list([1, 2])
        ident = first._id
        proxies = [first]
        if nprox == 2:
            proxies.append(bm.RebuildProxy(type(first), first._token, 'verif', {'authkey': b'k'}))
        if parent_called:
            if len(first) != 2:
                return fail('C20:call:result-differs-from-local-object:list:__len__')
        rc0 = srv.id_to_refcount.get(ident)
        if rc0 != nprox:
            return fail('C20:refcount:differs-from-live-proxies')
        seen = {}
        keep = [(q, q._close, q._manager, set(q._idset)) for q in proxies]
        tls = first._tls
        tls_before = dict(tls.__dict__)

        def target():
            # the child holds copies of every proxy: the server counts them for as long as the child lives
            seen['rc'] = srv.id_to_refcount.get(ident)
            q = proxies[len(proxies) - 1]
            if child_op == 1:
                seen['got'] = q[0]
            elif child_op == 2:
                q.append(7)
                twin.append(7)
        exitcode = _child_life(target)
        for q, close, manager, ids in keep:      # the parent's own copies are untouched by what the child did to its copies
            q._close, q._manager = close, manager
            q._idset.clear()
            q._idset.update(ids)
        tls.__dict__.clear()
        tls.__dict__.update(tls_before)
        if want:
            return False if (exitcode == 0 and child_op == 2) else True
        if exitcode != 0:
            return fail('C20:fork:child-failed-using-the-inherited-proxy')
        if CUR['crossed']:
            return fail('C20:fork:child-talks-on-the-connection-the-parent-opened')
        if seen.get('rc') != 2 * nprox:
            return fail('C20:fork:child-copies-of-the-proxies-not-counted')
        if child_op == 1 and seen.get('got') != 1:
            return fail('C20:call:result-differs-from-local-object:list:__getitem__')
        if srv.id_to_refcount.get(ident) != nprox or ident not in srv.id_to_obj:
            return fail('C20:fork:child-exit-did-not-release-exactly-its-references')
        if parent_after:
            if first._getvalue() != twin:
                return fail('C20:call:state-differs-from-local-object:list')
        if CUR['crossed']:
            return fail('C20:fork:parent-talks-on-a-connection-the-child-opened')
        while proxies:
            proxies.pop()._close()
        if ident in srv.id_to_obj or ident in srv.id_to_refcount:
            return fail('C20:lifetime:referent-kept-after-last-proxy-released')
        return True


def h_fork_child(code: int) -> bool:
    """
    pre: 0 <= code < CODEMAX
    post: _
    """
    try:
        return _fork_child(code, False)
    except Prune:
        return True


def h_fork_child_twin(code: int) -> bool:
    """
    pre: 0 <= code < CODEMAX
    post: _
    """
    try:
        return _fork_child(code, True)
    except Prune:
        return True


# ---------------------------------------------------------------------------
# the other registered types: Namespace, Value, Array, Event, Queue, Lock, Semaphore - a proxied operation returns (or raises)
# what the same operation on a local object of the registered class does

import array as _array
import queue as _queue


class _ProxyReturningCallFailed(Exception):
    pass


def _mk(m, kind, transferred=False):
    """(proxy, local twin, table of operations: name -> (call on proxy, call on twin))"""
    if kind == 0:
        p, t = m.Namespace(), bm.Namespace()
        ops = [lambda o, x: setattr(o, 'a', x), lambda o, x: o.a, lambda o, x: delattr(o, 'a'), lambda o, x: setattr(o, 'b', x + 1), lambda o, x: o.b]
        state = lambda o: (getattr_or(o, 'a'), getattr_or(o, 'b'))
    elif kind == 1:
        p, t = m.Value('i', 3), bm.Value('i', 3)
        ops = [lambda o, x: o.set(x), lambda o, x: o.get(), lambda o, x: setattr(o, 'value', x + 5), lambda o, x: o.value]
        state = lambda o: o.get()
    elif kind == 2:
        p, t = m.Array('i', [1, 2, 3]), _array.array('i', [1, 2, 3])
        ops = [lambda o, x: o[x], lambda o, x: o.__setitem__(x, 9), lambda o, x: len(o), lambda o, x: list(o[0:x]), lambda o, x: o.__setitem__(x + 2, 4)]
        state = lambda o: [o[0], o[1], o[2]]
    elif kind == 3:
        p, t = m.Event(), threading.Event()
        ops = [lambda o, x: o.set(), lambda o, x: o.clear(), lambda o, x: o.is_set(), lambda o, x: o.wait(0)]
        state = lambda o: o.is_set()
    elif kind == 4:
        p, t = m.Queue(2), _queue.Queue(2)
        ops = [lambda o, x: o.put(x, False), lambda o, x: o.get(False), lambda o, x: o.qsize(), lambda o, x: o.empty(), lambda o, x: o.full()]
        state = lambda o: o.qsize()
    elif kind == 5:
        p, t = m.Lock(), threading.Lock()
        ops = [lambda o, x: o.acquire(False), lambda o, x: o.release(), lambda o, x: o.acquire(True, 0)]
        state = lambda o: None
    elif kind == 6:
        p, t = m.BoundedSemaphore(2), threading.BoundedSemaphore(2)
        ops = [lambda o, x: o.acquire(False), lambda o, x: o.release()]
        state = lambda o: None
    else:
        # the registered 'Iterator' type: what a method listed in method_to_typeid (PoolProxy.imap ...) hands back - a proxy of a
        # generator living in the server; next / send / close through it behave like the generator itself
        src = m.vp_gen()
        if transferred:
            # the proxy the call is made through has been transferred (pickled to another process / thread): a copy without its manager
            src = bm.RebuildProxy(type(src), src._token, 'verif', {'authkey': b'k'})
        try:
            p, t = src.items(), _Gen().items()
        except AttributeError:
            raise _ProxyReturningCallFailed()
        ops = [lambda o, x: next(o), lambda o, x: o.send(None), lambda o, x: o.close(), lambda o, x: iter(o) is o]
        state = lambda o: None
    return p, t, ops, state


class _Gen:
    def items(self):
        yield 10
        yield 20


def getattr_or(o, name):
    try:
        return ('v', getattr(o, name))
    except AttributeError:
        return ('missing',)


KT = tier(2, 3)
XS = (0, 1, 3)          # 3 is out of range for the array, a second item for the queue of capacity 2 ...


def _types(code, want):
    nd = NDCode(code)
    kind = PART % 8 if NPART > 1 else nd.draw(0, 7)
    with untraced():
        bm.SyncManager.register('vp_gen', callable=_Gen, exposed=('items',), method_to_typeid={'items': 'Iterator'})
        m, srv = setup()
    transferred = kind == 7 and nd.flag()
    with untraced():
        try:
            p, t, ops, state = _mk(m, kind, transferred)
        except _ProxyReturningCallFailed:
            # a method whose result comes back as a new proxy (method_to_typeid), called through a transferred proxy
            return fail('C20:call:proxy-raises-where-the-local-object-does-not:proxy-returning-method-through-a-transferred-proxy')
    raised = False
    for step in range(KT):
        op = ops[nd.draw(0, len(ops) - 1)]
        x = XS[nd.draw(0, 2)]
        try:
            exp = ('ret', op(t, x))
        except Exception as e:
            exp = ('exc', type(e))
            raised = True
        try:
            got = ('ret', op(p, x))
        except Exception as e:
            got = ('exc', type(e))
        if got != exp:
            return fail('C20:call:result-differs-from-local-object:type%d' % kind)
        if state(p) != state(t):
            return fail('C20:call:state-differs-from-local-object:type%d' % kind)
    if want:
        return False          # reachability: a whole history ran
    ident = p._id
    p._close()
    if ident in srv.id_to_obj:
        return fail('C20:lifetime:referent-kept-after-last-proxy-released')
    return True


def h_types(code: int) -> bool:
    """
    pre: 0 <= code < CODEMAX
    post: _
    """
    try:
        return _types(code, False)
    except Prune:
        return True


def h_types_twin(code: int) -> bool:
    """
    pre: 0 <= code < CODEMAX
    post: _
    """
    try:
        return _types(code, True)
    except Prune:
        return True


# ---------------------------------------------------------------------------
# a thread-affine referent (what threading.RLock / Condition are): the server serves every connection in a thread of its own, so
# a client thread must keep talking over its one connection for as long as it holds proxies of that manager

class Affine:
    """acquire/release must come from the same server thread; the local twin is used from one thread only"""

    def __init__(self):
        self.owner = None

    def acquire(self):
        me = SERVING[0]
        if self.owner is not None and self.owner != me:
            return False
        self.owner = me
        return True

    def release(self):
        if self.owner != SERVING[0]:
            raise RuntimeError('cannot release un-acquired lock')
        self.owner = None


def _affine(code, want):
    nd = NDCode(code)
    keep_other = nd.flag()             # another long-lived proxy of the same manager exists
    when = nd.draw(0, 3)               # an unrelated temporary proxy is released: never / before acquire / while held / after release
    with untraced():
        bm.SyncManager.register('vp_affine', callable=Affine, exposed=('acquire', 'release'))
        m, srv = setup()
    SERVING[0] = None
    lk = m.vp_affine()
    other = m.list([1]) if keep_other else None
    tmp = m.dict() if when else None
    if when == 1:
        tmp._close()
    if lk.acquire() is not True:
        return fail('C20:call:result-differs-from-local-object:thread-affine-referent')
    if when == 2:
        tmp._close()
        if want:
            return False
    try:
        lk.release()
    except Exception:
        return fail('C20:call:proxy-raises-where-the-local-object-does-not:thread-affine-referent')
    if when == 3:
        tmp._close()
    if other is not None and other[0] != 1:
        return fail('C20:call:result-differs-from-local-object:list')
    lk._close()
    if other is not None:
        other._close()
    return True


def h_affine(code: int) -> bool:
    """
    pre: 0 <= code < CODEMAX
    post: _
    """
    try:
        return _affine(code, False)
    except Prune:
        return True


def h_affine_twin(code: int) -> bool:
    """
    pre: 0 <= code < CODEMAX
    post: _
    """
    try:
        return _affine(code, True)
    except Prune:
        return True

"""Shared pieces of every harness: tiers, pruning, nondeterministic draws,
failure tags and suppression of listed known findings."""
import json
import os

TIER = os.environ.get('VERIF_TIER', 'quick')
THOROUGH = TIER == 'thorough'
HERE = os.path.dirname(os.path.dirname(os.path.abspath(__file__)))
# an obligation may be split into NPART parts explored in parallel; the
# harness turns PART into a precondition on some of its parameters
PART = int(os.environ.get('VERIF_PART', '0'))
NPART = int(os.environ.get('VERIF_NPART', '1'))


def tier(quick, thorough):
    return thorough if THOROUGH else quick


class Prune(Exception):
    """An assumption placed in the middle of a run does not hold: the path is
    outside the claim; the harness turns this into `return True`."""


REPLAY = {'on': False, 'tag': None, 'trace': [], 'suppressed': []}


def begin_replay():
    REPLAY.update(on=True, tag=None, trace=[], suppressed=[])


def trace(*a):
    if REPLAY['on']:
        REPLAY['trace'].append(' '.join(str(x) for x in a))


def _load_known():
    path = os.path.join(HERE, 'known_findings.json')
    tags = set()
    try:
        with open(path) as f:
            data = json.load(f)
        for ent in data.get('findings', []):
            if ent.get('status') == 'known':
                tags.update(ent.get('tags', []))
    except FileNotFoundError:
        pass
    return tags


SUPPRESS = _load_known()
if os.environ.get('VERIF_NO_SUPPRESS'):
    SUPPRESS = set()


def fail(tag):
    """Report a monitor failure.  Returns the harness verdict: False, or True
    when the tag is a listed known finding (that path is then not explored any
    further, the rest of the space still is)."""
    REPLAY['tag'] = tag
    if os.environ.get('VERIF_RAISE_TAGS') and tag not in SUPPRESS:
        raise AssertionError(tag)       # debugging aid: shows the tag in CrossHair's message
    if tag in SUPPRESS:
        if REPLAY['on']:
            REPLAY['suppressed'].append(tag)
            return False      # a replay always shows the failure
        return True
    return False


def untraced():
    """run concrete set-up code outside CrossHair's tracer (no symbolic value
    may be touched inside); a no-op when replaying natively"""
    try:
        from crosshair.tracers import NoTracing, is_tracing
        if is_tracing():
            return NoTracing()
    except Exception:
        pass
    import contextlib
    return contextlib.nullcontext()


def realize(x):
    """ask the solver for a concrete value of x (CrossHair then enumerates the
    alternatives on later paths): used for bounded ints that are compared many
    times, where one decision per value is cheaper than one per comparison"""
    try:
        from crosshair.tracers import is_tracing
        if is_tracing():
            from crosshair.core import realize as _r
            return _r(x)
    except Exception:
        pass
    return x


def pick(x, lo, hi):
    """concrete value of a bounded symbolic int through a deterministic chain of decisions x == lo, x == lo+1, ...
    (one path per value; crosshair's own realize() lets the solver pick the candidate, which was measured to
    revisit the same concrete input dozens of times)"""
    if isinstance(x, bool):
        return True if x else False
    for v in range(lo, hi + 1):
        if x == v:
            return v
    raise Prune()


class ND:
    """Nondeterministic choices drawn from a vector of solver variables."""

    def __init__(self, vec):
        self.vec = vec
        self.i = 0

    def draw(self, lo, hi):
        """next choice, assumed to lie in [lo, hi]"""
        if self.i >= len(self.vec):
            raise Prune()
        v = self.vec[self.i]
        self.i += 1
        if not (lo <= v <= hi):
            raise Prune()
        return v

    def left(self):
        return len(self.vec) - self.i


class NDCode:
    """The same interface as ND, drawing all small choices as mixed-radix digits of ONE solver integer (measured: a
    harness with seven small int parameters revisited each concrete input ~40 times, the same harness with one
    integer visited each once).  Wide choices (clock advances, sizes) come from a separate list of solver ints."""

    def __init__(self, code, wides=()):
        self.code = code
        self.n = CODEMAX          # the digits are read most-significant first by splitting [0, n) into equal
        self.off = 0              # sub-intervals: only linear comparisons with constants reach the solver
        self.wides = wides        # (div/mod digit extraction made queries ~8x slower)
        self.wi = 0

    def draw(self, lo, hi):
        base = hi - lo + 1
        if base > 16:
            if self.wi >= len(self.wides):
                raise Prune()
            v = self.wides[self.wi]
            self.wi += 1
            if not (lo <= v <= hi):
                raise Prune()
            return v
        if base == 1:
            return lo
        width = self.n // base
        if width == 0:
            raise Prune()         # more digits than CODEMAX provides
        for d in range(base):
            if self.code < self.off + (d + 1) * width:
                self.off += d * width
                self.n = width
                return lo + d
        raise Prune()             # the unused tail of the interval

    def flag(self):
        return self.draw(0, 1) == 1

    def left(self):
        return 1 << 30


CODEMAX = 10 ** 40


class _CheapTraceback:
    """cut: billiard.einfo formats the traceback text with the traceback module,
    which costs thousands of solver queries under the tracer although nothing
    symbolic is formatted; C12 owns formatting (harness/c12.py runs it for real)"""

    def __init__(self, real):
        self._real = real

    def __getattr__(self, name):
        return getattr(self._real, name)

    def format_exception(self, *a, **k):
        return ['<traceback text>']


def cheap_einfo():
    import billiard.einfo as be
    import traceback as _tb
    if not isinstance(be.traceback, _CheapTraceback):
        be.traceback = _CheapTraceback(_tb)
        real_init = be.Traceback.__init__

        def init_untraced(self, tb, *a, **k):
            # the real einfo.Traceback constructor, run outside the tracer: it copies code
            # objects of concrete frames (slow under tracing, nothing symbolic)
            with untraced():
                real_init(self, tb, *a, **k)
        be.Traceback.__init__ = init_untraced


def encode(digits):
    """the code whose NDCode draws are the given (value, base) digits (used to write down replay inputs by hand)"""
    n, off = CODEMAX, 0
    for d, b in digits:
        w = n // b
        off += d * w
        n = w
    return off

"""C02 - results equal the sequential computation: value, order, exception.

Real code: Pool._map_async (chunk-size defaulting), _get_tasks, mapstar /
starmapstar, MapResult, IMapIterator / IMapUnorderedIterator (_set, _set_length,
next), TaskHandler.body (length announcement), ApplyResult.get, ExceptionInfo /
ExceptionWithTraceback / rebuild_exc through a real pickle round trip of every
result payload.
Symbolic: input length, chunk size (0 = defaulted), pool size, the set of raising
positions, and the order in which workers take and finish chunks and the result
handler runs (event vector).  Lengths and chunk sizes are realised by the
solver inside the bound (list construction and islice need concrete sizes).
"""
from typing import List
import billiard.pool as bp
from billiard.einfo import RemoteTraceback
from harness.hbase import fail, tier, Prune, ND, PART, NPART, untraced, realize, THOROUGH, NDCode, CODEMAX
from harness import world as W

NMAX = tier(3, 4)
CMAX = tier(2, 4)
K = tier(3, 5)
KINDS = ('map', 'starmap', 'imap', 'imapu', 'apply')


def f(x, bad):
    if (bad >> x) & 1:
        raise ValueError(('boom', x))
    return ('r', x)


class Fn:
    """picklable callables carrying the (concrete) set of raising positions"""

    def __init__(self, bad):
        self.bad = bad

    def __call__(self, x):
        return f(x, self.bad)


class Fn2(Fn):
    def __call__(self, x, y=None, z=7):
        return f(x, self.bad) + (y, z)


def _star_args(x):
    # argument tuples of different lengths (1, 2 or 3 positional arguments) share a chunk
    return ((x,), (x, x + 10), (x, x + 10, x + 20))[x % 3]


def _star_tail(x):
    a = _star_args(x)
    return (a[1] if len(a) > 1 else None, a[2] if len(a) > 2 else 7)


def _seq(kind, n, bad):
    out = []
    for x in range(n):
        try:
            out.append((True, f(x, bad) + (_star_tail(x) if kind == 'starmap' else ())))
        except ValueError as e:
            out.append((False, e.args))
    return out


def _is_remote(exc):
    return isinstance(getattr(exc, '__cause__', None), RemoteTraceback)


class _NoWait:
    def __enter__(self):
        return self

    def __exit__(self, *a):
        return False

    def acquire(self, *a):
        return True

    def release(self):
        pass

    def wait(self, timeout=None):
        return False

    def notify(self, *a):
        pass
    notify_all = notify


class _GenIter:
    """gives the flattening generator the next(timeout=) interface of the iterators"""

    def __init__(self, gen):
        self.gen = gen

    def next(self, timeout=None):
        return next(self.gen)


def _scenario(kind, n, c, p_size, bad, ev, want):
    w = W.World()
    with untraced():
        p = w.make_pool(p_size)
    w.pickle_results = True
    nd = ev
    seq = _seq(kind, n, bad)
    chunk = c if c else None
    if kind == 'map':
        h = p.map_async(Fn(bad), list(range(n)), chunksize=chunk)
    elif kind == 'starmap':
        h = p.starmap_async(Fn2(bad), [_star_args(x) for x in range(n)], chunksize=chunk)
    elif kind in ('imap', 'imapu'):
        h = (p.imap if kind == 'imap' else p.imap_unordered)(Fn(bad), list(range(n)), **({'chunksize': chunk} if chunk else {}))
        if chunk and chunk > 1:
            # imap(chunksize > 1) hands back a generator that flattens the chunks of the real iterator (which sits in the cache);
            # the consumer below must never sleep: a wait() that returns at once turns a missing item into TimeoutError
            gen = h
            it = list(p._cache.values())[len(p._cache) - 1]
            it._cond = _NoWait()
            h = _GenIter(gen)
    else:
        if n == 0:
            raise Prune()
        h = p.apply_async(Fn(bad), (n - 1,))
        seq = seq[n - 1:]
    if h is None:
        return fail('C02:job-not-accepted')
    if kind in ('map', 'starmap') and n == 0:
        if not h.ready() or h.get(0) != []:
            return fail('C02:empty-input-not-an-empty-complete-result')
    w.feed()
    # any order of taking / finishing / result handling
    for _ in range(K):
        if not p._outqueue.q and not p._inqueue.q and all(x.state != 'busy' for x in p._pool):
            break                       # nothing can happen any more (e.g. empty input)
        e = nd.draw(0, 2)
        if e < 2:
            if e >= len(p._pool):
                raise Prune()
            x = p._pool[e]
            if x.state == 'idle':
                if not p._inqueue.q:
                    raise Prune()
                w.w_take(x)
            else:
                w.w_done(x)
        else:
            if not p._outqueue.q:
                raise Prune()
            w.rh()
    for _ in range(NMAX + 2):
        for x in p._pool:
            while x.state == 'busy' or (x.state == 'idle' and p._inqueue.q):
                if x.state == 'idle':
                    w.w_take(x)
                w.w_done(x)
        w.drain_results()
    if want:
        return False
    fails = [s for s in seq if not s[0]]
    if kind in ('map', 'starmap', 'apply'):
        if not h.ready():
            return fail('C02:never-complete:' + kind)
        if fails:
            try:
                h.get(0)
            except ValueError as exc:
                if exc.args not in [s[1] for s in fails]:
                    return fail('C02:exception-not-from-own-input:' + kind)
                if not _is_remote(exc):
                    return fail('C02:remote-traceback-not-attached:' + kind)
                return True
            except Exception as exc:
                return fail('C02:wrong-exception-type:' + kind + ':' + type(exc).__name__)
            return fail('C02:failure-swallowed:' + kind)
        got = h.get(0)
        exp = [s[1] for s in seq] if kind != 'apply' else seq[0][1]
        if got != exp:
            return fail('C02:result-differs-from-sequential:' + kind)
        return True
    # iterators
    got = []
    for _ in range(n + 1):
        try:
            got.append((True, h.next(timeout=0)))
        except StopIteration:
            break
        except bp.TimeoutError:
            return fail('C02:iterator-stalls:' + kind)
        except Exception as exc:
            einfo = exc.args[0] if exc.args else None
            if W.einfo_type(einfo) is not ValueError:
                return fail('C02:iterator-error-does-not-carry-the-exception-record:' + kind)
            got.append((False, einfo.exception.args))
    else:
        return fail('C02:iterator-yields-too-many-items:' + kind)
    chunked_failure = bool(chunk and chunk > 1 and fails)
    if kind == 'imap':
        if got != seq:
            if chunked_failure and _chunk_semantics(got, seq, chunk, ordered=True):
                return fail('C02:imap-chunked:a-raising-item-fails-its-whole-chunk-and-ends-the-iteration')
            return fail('C02:imap-order-or-values-differ')
    else:
        if sorted(got, key=repr) != sorted(seq, key=repr):
            if chunked_failure and _chunk_semantics(got, seq, chunk, ordered=False):
                return fail('C02:imap-chunked:a-raising-item-fails-its-whole-chunk-and-ends-the-iteration')
            return fail('C02:imap_unordered-multiset-differs')
    return True


def _chunk_semantics(got, seq, c, ordered):
    """what the chunked iterators deliver when an item raises (finding F23): whole chunks without a failing item, then the error of the FIRST failing item of
    one failing chunk (mapstar stops there), then the end of the iteration.  Anything else is a different violation."""
    chunks = [seq[i:i + c] for i in range(0, len(seq), c)]
    if not got or got[-1][0] or any(not g[0] for g in got[:-1]):
        return False
    items, err = got[:-1], got[-1]
    clean = [ch for ch in chunks if all(s[0] for s in ch)]
    failing = [ch for ch in chunks if not all(s[0] for s in ch)]
    first_errors = [[s for s in ch if not s[0]][0] for ch in failing]
    if err not in first_errors:
        return False
    if ordered:
        k = chunks.index(failing[0])
        return items == [s for ch in chunks[:k] for s in ch] and err == first_errors[0]
    # unordered: the items delivered are those of some set of whole clean chunks, each once
    left = list(items)
    for ch in clean:
        if all(s in left for s in ch):
            for s in ch:
                left.remove(s)
    return not left


def _go(code, want):
    try:
        return _go1(code, want)
    except Prune:
        return True


def _go1(code, want):
    # NPART = 5 * (NMAX + 1): job kind x input length; everything else are digits of one solver integer
    nd = NDCode(code)
    kind = KINDS[PART % 5]
    n = (PART // 5) % (NMAX + 1)
    if kind == 'apply':
        n += 1                                   # apply has no empty input: argument positions 0..NMAX
    c = nd.draw(0, CMAX) if kind in ('map', 'starmap') else nd.draw(0, 2) if kind in ('imap', 'imapu') else 0
    p_size = 1 + nd.draw(0, 1)
    if THOROUGH:
        bad = 0
        for k in range(n):
            bad |= nd.draw(0, 1) << k           # any subset of raising positions
    else:
        k = nd.draw(0, n)                        # quick: at most one raising position
        bad = 0 if k == n else (1 << k)
    try:
        return _scenario(kind, n, c, p_size, bad, nd, want)
    except Prune:
        return True


def h_seq(code: int) -> bool:
    """
    pre: 0 <= code < CODEMAX
    post: _
    """
    return _go(code, False)


def h_seq_twin(code: int) -> bool:
    """
    pre: 0 <= code < CODEMAX
    post: _
    """
    return _go(code, True)


def l_chunking(tier_name):
    """arithmetic side condition (z3): for 1<=c<=64, 0<=n<=64 the slices [i*c, min((i+1)*c, n)) for i < n//c + bool(n%c)
    tile [0,n), and the defaulted chunk size ceil(n / (4p)) is >= 1 for n >= 1"""
    import z3
    from vlib import smt
    n, c, i, x, p = z3.Ints('n c i x p')
    k = n / c + z3.If(n % c != 0, 1, 0)
    rng = z3.And(1 <= c, c <= 64, 0 <= n, n <= 64)
    # every x in [0,n) lies in exactly one slice i = x // c with i < k
    covered = z3.And(x / c < k, (x / c) * c <= x, x < z3.If((x / c + 1) * c < n, (x / c + 1) * c, n))
    r1 = smt.discharge('every index lies in its slice and the slice count is n//c + bool(n%c)', z3.Not(z3.Implies(z3.And(rng, 0 <= x, x < n), covered)), cross=True)
    # no slice beyond the count is non-empty
    r2 = smt.discharge('no non-empty slice beyond the count', z3.And(rng, i >= k, i * c < n, i >= 0), cross=True)
    dflt = n / (p * 4) + z3.If(n % (p * 4) != 0, 1, 0)
    r3 = smt.discharge('defaulted chunk size >= 1 for non-empty input', z3.And(1 <= p, p <= 16, 1 <= n, n <= 1000, dflt < 1), cross=True)
    s = z3.Solver()
    s.add(rng, n % c != 0, n > c)
    w = {'name': 'a length not divisible by the chunk size exists', 'z3': smt.check(s)}
    return smt.verdict([r1, r2, r3], [w])

"""C15 (partial) - shared ctypes values: initialised, isolated, wrappers lock-disciplined.

Real code: sharedctypes.RawValue/RawArray/Value/Array/_new_value/rebuild_ctype/synchronized/make_property (the generated
property code)/Synchronized*/SynchronizedBase, heap.BufferWrapper/Heap.malloc/free over real mmap arenas.
What the solver chooses: a history of creations (from a menu of recipes: typecode, length / initialiser, lock argument) and
releases, and for the wrappers an operation with its argument.  Below each choice the run is concrete (ctypes and mmap are
C): these obligations are exhaustive bounded tests whose cases the solver enumerates, not symbolic reasoning - the
cross-process clauses (a write in a child is visible in the parent, no lost update under the lock across processes) are
OUTSIDE: they live in mmap/fork/the kernel semaphore.
"""
import ctypes
import gc
import struct
import billiard.sharedctypes as sc
import billiard.heap as bh
from harness.hbase import fail, tier, Prune, NDCode, CODEMAX, untraced, PART, NPART

K = tier(4, 5)


class RecLock:
    """a lock-like object handed to Value/Array(lock=...): records every acquire/release, re-entrant"""

    def __init__(self):
        self.log = []
        self.depth = 0
        self.maxdepth = 0

    def acquire(self, blocking=True, timeout=None):
        self.depth += 1
        self.maxdepth = max(self.maxdepth, self.depth)
        self.log.append('a')
        return True

    def release(self):
        if self.depth <= 0:
            raise RuntimeError('release of an unheld lock')
        self.depth -= 1
        self.log.append('r')

    def __enter__(self):
        return self.acquire()

    def __exit__(self, *a):
        self.release()


# recipe -> (factory, ctypes element type, element count, expected initial bytes)
def _recipes():
    i4 = struct.calcsize('i')
    return [
        (lambda: sc.RawValue('i'), ctypes.c_int, 1, b'\0' * i4),
        (lambda: sc.Value('d', 1.5, lock=RecLock()), ctypes.c_double, 1, struct.pack('d', 1.5)),
        (lambda: sc.RawArray('b', 3), ctypes.c_byte, 3, b'\0\0\0'),
        (lambda: sc.Array('i', [1, 2], lock=RecLock()), ctypes.c_int, 2, struct.pack('2i', 1, 2)),
        (lambda: sc.Array('c', b'ab', lock=RecLock()), ctypes.c_char, 2, b'ab'),
        (lambda: sc.Value('B', 7, lock=False), ctypes.c_ubyte, 1, b'\x07'),
        (lambda: sc.RawArray('d', 2), ctypes.c_double, 2, b'\0' * 16),
        (lambda: sc.Value('h', lock=RecLock()), ctypes.c_short, 1, b'\0\0'),
    ]


def _raw(o):
    return o.get_obj() if isinstance(o, sc.SynchronizedBase) else o


def _history(choices, want):
    # a private heap: earlier paths' blocks must not influence this one
    bh.BufferWrapper._heap = bh.Heap()
    recipes = _recipes()
    live = []          # [object, address, size, expected bytes]
    reused = False
    freed = []         # (address, size) of released objects
    for step, ch in enumerate(choices):
        if ch >= len(recipes):
            if not live:
                return True
            ent = live.pop(0 if ch == len(recipes) else len(live) - 1)
            freed.append((ent[1], ent[2]))
            ent[0] = None
            del ent
            gc.collect()
            continue
        make, ctype, n, init = recipes[ch]
        obj = make()
        raw = _raw(obj)
        addr, size = ctypes.addressof(raw), ctypes.sizeof(raw)
        if size != ctypes.sizeof(ctype) * n:
            return fail('C15:size-differs-from-type-times-length')
        got = ctypes.string_at(addr, size)
        if got != init:
            return fail('C15:not-created-holding-its-initial-value' + (':zero-fill' if init.strip(b'\0') == b'' else ''))
        for o, a, s, exp in live:
            if a < addr + size and addr < a + s:
                return fail('C15:storage-shared-with-another-live-object')
        if any(a < addr + size and addr < a + s for a, s in freed):
            reused = True
        pattern = bytes([0xA0 + step]) * size
        ctypes.memmove(addr, pattern, size)            # writing one ...
        for o, a, s, exp in live:
            if ctypes.string_at(a, s) != exp:          # ... never changes another
                return fail('C15:write-changed-another-live-object')
        live.append([obj, addr, size, pattern])
    if want:
        return not reused
    return True


def _choices(code):
    nd = NDCode(code)
    return ([PART % 8] if NPART > 1 else [nd.draw(0, 9)]) + [nd.draw(0, 9) for _ in range(K - 1)]


def h_objects(code: int) -> bool:
    """
    pre: 0 <= code < CODEMAX
    post: _
    """
    try:
        ch = _choices(code)
    except Prune:
        return True
    with untraced():
        return _history(ch, False)


def h_objects_twin(code: int) -> bool:
    """
    pre: 0 <= code < CODEMAX
    post: _
    """
    try:
        ch = _choices(code)
    except Prune:
        return True
    with untraced():
        return _history(ch, True)


# ---------------------------------------------------------------------------
# the synchronised wrappers: every access is bracketed by exactly one acquire/release of the object's own lock (also
# when it raises) and returns what the same access on a plain ctypes object returns

def _locking(kind, op, arg, val):
    # accesses the wrapper class defines: .value on a value / a char array, .raw on a char array, items and slices on arrays
    if (kind == 0 and op not in (0, 1)) or (kind == 1 and op not in (2, 3, 4)) or (kind == 2 and op not in (0, 1, 2, 3, 4, 5)):
        return True
    lock = RecLock()
    if kind == 0:
        w = sc.Value('i', 5, lock=lock)
        twin = ctypes.c_int(5)
    elif kind == 1:
        w = sc.Array('i', [1, 2, 3], lock=lock)
        twin = (ctypes.c_int * 3)(1, 2, 3)
    else:
        w = sc.Array('c', b'abc', lock=lock)
        twin = (ctypes.c_char * 3)(*b'abc')
    if w.get_lock() is not lock or w.get_obj() is not _raw(w):
        return fail('C15:get_lock-or-get_obj-is-not-the-object-s-own')
    if lock.log:
        return fail('C15:lock-taken-at-construction-and-kept')
    idx = (0, 2, 3, -1)[arg]            # 3 is out of range

    def do(o):
        if op == 0:
            return ('ret', o.value)                              # not for the int array: AttributeError on both
        if op == 1:
            o.value = (val if kind == 0 else bytes([97 + val % 3]))
            return ('ret', None)
        if op == 2:
            return ('ret', o[idx])
        if op == 3:
            o[idx] = (val if kind != 2 else bytes([97 + val % 3]))
            return ('ret', None)
        if op == 4:
            return ('ret', list(o[0:idx]) if kind == 1 else o[0:idx])
        return ('ret', o.raw)
    try:
        exp = do(twin)
    except Exception as e:
        exp = ('exc', type(e))
    try:
        got = do(w)
    except Exception as e:
        got = ('exc', type(e))
    if got != exp:
        return fail('C15:wrapper-access-differs-from-the-plain-object')
    state_w = ctypes.string_at(ctypes.addressof(_raw(w)), ctypes.sizeof(_raw(w)))
    state_t = ctypes.string_at(ctypes.addressof(twin), ctypes.sizeof(twin))
    if state_w != state_t:
        return fail('C15:wrapper-state-differs-from-the-plain-object')
    if lock.depth != 0:
        return fail('C15:lock-not-released-after-the-access')
    if lock.log != ['a', 'r']:
        return fail('C15:access-not-bracketed-by-exactly-one-acquire-release-of-the-object-s-lock')
    return True


def h_locking(code: int) -> bool:
    """
    pre: 0 <= code < CODEMAX
    post: _
    """
    try:
        nd = NDCode(code)
        kind, op, arg, val = nd.draw(0, 2), nd.draw(0, 5), nd.draw(0, 3), nd.draw(0, 9)
    except Prune:
        return True
    with untraced():
        return _locking(kind, op, arg, val)


def h_default_lock(code: int) -> bool:
    """
    pre: 0 <= code < CODEMAX
    post: _
    """
    # lock=True / None: a re-entrant lock of the object's own, the same on every call; lock=False: the raw object; a lock
    # argument without acquire is refused
    try:
        nd = NDCode(code)
        arr, how = nd.flag(), nd.draw(0, 3)
    except Prune:
        return True
    with untraced():
        mk = (lambda **k: sc.Array('i', 2, **k)) if arr else (lambda **k: sc.Value('i', 0, **k))
        if how == 2:
            o = mk(lock=False)
            return (not isinstance(o, sc.SynchronizedBase)) or fail('C15:lock-False-still-wrapped')
        if how == 3:
            try:
                mk(lock='no lock')
            except AttributeError:
                return True
            return fail('C15:lock-argument-without-acquire-accepted')
        o = mk(lock=True) if how == 0 else mk()
        l1 = o.get_lock()
        if l1 is not o.get_lock():
            return fail('C15:get_lock-changes-between-calls')
        other = mk(lock=True)
        if other.get_lock() is l1:
            return fail('C15:two-objects-share-one-default-lock')
        # re-entrant: "updates made while holding the object's lock" use the accessors, which take the lock again
        if not l1.acquire(False):
            return fail('C15:default-lock-not-free-after-construction')
        try:
            if not l1.acquire(False):
                return fail('C15:default-lock-not-reentrant')
            l1.release()
            if arr:
                o[0] = o[0] + 1
                ok = o[0] == 1
            else:
                o.value = o.value + 1
                ok = o.value == 1
        finally:
            l1.release()
        return ok or fail('C15:read-modify-write-under-the-lock-lost')

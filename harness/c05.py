"""C05 / C06 - hard and soft time limits (parent side).

Real code run: Pool.__init__(timeout=, soft_timeout=), apply_async(timeout=,
soft_timeout=), TimeoutHandler.handle_event/handle_timeouts/on_hard_timeout/
on_soft_timeout/_trywaitkill/_process_by_pid, ApplyResult._ack/_set/
handle_timeout, ResultHandler dispatch, Pool._maintain_pool.
Symbolic: pool-level and per-job hard/soft limits (0 = none), clock advances,
the order of scans / result handling / worker completion / supervision ticks,
whether the worker obeys TERM, whether workers are process-group leaders,
pool size, what other job kinds share the cache, and a pre-emption of the scan
by the result handler between its cache snapshot and its per-job checks.
"""
import copy as _copy
from typing import List
import billiard.pool as bp
from billiard.exceptions import TimeLimitExceeded
from harness.hbase import fail, tier, Prune, ND, trace, PART, NPART, untraced, NDCode, CODEMAX
from harness import world as W

K = tier(3, 4)
TMAX = 50
OTHERS = ('none', 'map', 'imap', 'imapu')


class HookedCopy:
    """stands in for the `copy` module inside billiard.pool: lets another
    thread (the result handler) run right after the scan took its snapshot"""
    hook = None

    @staticmethod
    def copy(d):
        snap = _copy.copy(d)
        h = HookedCopy.hook
        if h is not None:
            HookedCopy.hook = None
            h()
        return snap


def _opt(x):
    return x if x else None


def _limits(pt, ps, jt, js, ev, nproc, leaders, other_kind, obeys, want, replaced=None):
    w = W.World(leaders=leaders)
    with untraced():
        bp.copy = HookedCopy
        HookedCopy.hook = None
    p = w.make_pool(nproc, timeout=_opt(pt), soft_timeout=_opt(ps), enable_timeouts=True)
    nd = ev if hasattr(ev, 'draw') else ND(ev)
    calls = []
    if replaced is not None:
        # the job runs on a replacement worker: a worker of the initial set exits while idle and supervision replaces it first
        w.w_exit(p._pool[0], replaced)
        w.tick()
        if len(p._pool) != nproc:
            raise Prune()

    def tcb(soft=None, timeout=None):
        calls.append((soft, timeout))
    others = []
    if other_kind == 'map':
        others.append(W.Observer(p.map_async(W.val, ['m0', 'm1'], chunksize=1), 'map'))
    elif other_kind == 'imap':
        others.append(W.Observer(p.imap(W.val, ['m0', 'm1']), 'imap'))
    elif other_kind == 'imapu':
        others.append(W.Observer(p.imap_unordered(W.val, ['m0', 'm1']), 'imapu'))
    A = W.Observer(p.apply_async(W.val, ('A',), timeout=_opt(jt), soft_timeout=_opt(js), timeout_callback=tcb), 'apply')
    w.feed()
    wk = p._pool[0] if replaced is None else p._pool[len(p._pool) - 1]       # replacements are appended
    wk.obeys_term = obeys
    w.w_take(wk)                       # the first request queued is A's (apply goes straight to the pipe)
    if wk.cur[0] != A.h._job:
        raise AssertionError('harness: worker 0 did not take job A')
    w.drain_results()
    if other_kind != 'none' and nproc > 1:
        w.w_take(p._pool[1])           # part 0 of the other job is running on worker 1
        w.drain_results()
    t_acc = A.h._time_accepted
    H = jt if jt else (pt if pt else 0)
    S = js if js else (ps if ps else 0)
    pid = wk.pid
    hard_done = False
    soft_sent = 0
    finished = False            # A's own READY has been processed
    for _ in range(K):
        w.adv(nd.draw(0, 2 * TMAX + 5))
        e = nd.draw(0, 3)
        if e == 0 or e == 3:
            pre = (e == 3)
            ready_before = A.h.ready()
            if pre:
                if not p._outqueue.q:
                    raise Prune()
                HookedCopy.hook = w.rh        # result handler runs inside the scan
            nsig = len(w.signals)
            try:
                w.scan()
            except Exception as exc:
                return fail('C05:T5:scan-raises:' + other_kind + ':' + type(exc).__name__)
            HookedCopy.hook = None
            ready_at_check = ready_before or (pre and A.h.ready() and not A.observe().failed_with(TimeLimitExceeded))
            new = w.signals[nsig:]
            hard_due = bool(H) and w.now >= t_acc + H
            soft_due = bool(S) and w.now >= t_acc + S
            soft_now = [s for s in new if s == (pid, bp.SIG_SOFT_TIMEOUT)]
            term_now = [s for s in new if s[1] in (15, 9)]
            if ready_at_check:
                if new:
                    return fail('C06:signal-for-finished-job' + (':preempted' if pre else ''))
            elif hard_done:
                if soft_now:
                    return fail('C06:soft-after-hard')
            elif hard_due:
                if want == 'hard':
                    return False
                if not A.observe().failed_with(TimeLimitExceeded):
                    return fail('C05:T1:not-failed-at-expiry')
                hard_done = True
                if (pid, 15) not in term_now:
                    return fail('C05:T1:no-TERM')
                if not obeys and (pid, 9) not in term_now:
                    return fail('C05:T1:no-KILL-for-lingering-worker')
                if wk.exitcode is None:
                    return fail('C05:T1:worker-still-alive-after-scan')
                if calls[-1:] != [(False, H)]:
                    return fail('C05:T1:timeout-callback')
                if soft_now:
                    return fail('C06:soft-after-hard')
            else:
                if term_now or A.observe().failed_with(TimeLimitExceeded):
                    return fail('C05:T2:timed-out-inside-limit')
                if soft_due and soft_sent == 0:
                    if want == 'soft':
                        return False
                    if len(soft_now) != 1:
                        return fail('C06:soft-not-delivered')
                    soft_sent += 1
                    if calls[-1:] != [(True, S)]:
                        return fail('C06:soft-callback')
                elif soft_now:
                    return fail('C06:soft-repeated-or-early')
            for s in new:
                if s[0] != pid:
                    return fail('C05:T2:signal-to-other-worker')
        elif e == 1:
            w.rh()
        elif e == 2:
            if wk.state != 'busy':
                raise Prune()
            w.w_done(wk)
        A.observe()
        if A.outcomes and not hard_done:
            if A.outcomes != [(True, ('r', 'A'))]:
                return fail('C05:T2:wrong-outcome')
        if hard_done and len(A.outcomes) == 1 and not A.failed_with(TimeLimitExceeded):
            return fail('C05:T3:outcome-changed-after-timeout')
        for o in others:
            o.observe()
            if o.failed_with(TimeLimitExceeded):
                return fail('C05:T2:job-without-limit-timed-out:' + other_kind)
    if hard_done:
        # T4: the pool goes on serving later jobs, for every pool size
        w.tick()
        if len(p._pool) != nproc or pid in [x.pid for x in p._pool]:
            return fail('C05:T4:pool-not-restored')
        w.drain_results()
        if A.h.ready() and not A.h._value.type is TimeLimitExceeded:
            return fail('C05:T3:outcome-changed-after-timeout')
        C = W.Observer(p.apply_async(W.val, ('C',)), 'apply')
        idle = [x for x in p._pool if x.state == 'idle']
        if not idle:
            return fail('C05:T4:no-idle-worker-after-replacement')
        # the in-queue may still hold parts of the other job: take until C is taken
        for x in idle:
            while p._inqueue.q and x.state == 'idle':
                w.w_take(x)
                w.w_done(x)
        w.drain_results()
        if nproc > 1 or other_kind == 'none':
            if C.observe().outcomes != [(True, ('r', 'C'))]:
                return fail('C05:T4:later-job-not-served')
    return True


def _pre_common(ev):
    # PART: bit0 pool size, bit1 first event (scan / worker finishes); the last event is a scan
    return (len(ev) == 2 * K and ev[1] == (0 if (PART // 2) % 2 == 0 else 2)
            and (ev[2 * K - 1] == 0 or ev[2 * K - 1] == 3))


def _pre_hard(pt, jt, ev):
    # C05: hard limits only; PART bit2: does the job carry its own limit
    return (0 <= pt <= TMAX and 0 <= jt <= TMAX and (jt == 0) == ((PART // 4) % 2 == 0) and _pre_common(ev))


def _pre_soft(ps, js, jt, ev):
    # C06: soft limits (pool and job) and a job-level hard limit; PART bits 2,3: js / jt set
    return (0 <= ps <= TMAX and 0 <= js <= TMAX and 0 <= jt <= TMAX
            and (js == 0) == ((PART // 4) % 2 == 0) and (jt == 0) == ((PART // 8) % 2 == 0) and _pre_common(ev))


def _run(pt, ps, jt, js, ev, obeys, leaders, want):
    nproc = 1 + PART % 2
    try:
        return _limits(pt, ps, jt, js, ev, nproc, leaders, 'none', obeys, want)
    except Prune:
        return True


def h_hard(pt: int, jt: int, ev: List[int], obeys: bool, leaders: bool) -> bool:
    """
    pre: _pre_hard(pt, jt, ev)
    post: _
    """
    return _run(pt, 0, jt, 0, ev, obeys, leaders, None)


def h_hard_twin(pt: int, jt: int, ev: List[int], obeys: bool, leaders: bool) -> bool:
    """
    pre: _pre_hard(pt, jt, ev)
    post: _
    """
    return _run(pt, 0, jt, 0, ev, obeys, leaders, 'hard')


def h_soft(ps: int, js: int, jt: int, ev: List[int], obeys: bool) -> bool:
    """
    pre: _pre_soft(ps, js, jt, ev)
    post: _
    """
    return _run(0, ps, jt, js, ev, obeys, False, None)


def h_soft_twin(ps: int, js: int, jt: int, ev: List[int], obeys: bool) -> bool:
    """
    pre: _pre_soft(ps, js, jt, ev)
    post: _
    """
    return _run(0, ps, jt, js, ev, obeys, False, 'soft')


# ---------------------------------------------------------------------------
# the job runs on a worker that replaced one of the initial set: the scanner finds the process that runs the job *now*



def _replaced(code, ts, want):
    # PART: bit0 pool size, bit1 job-level / pool-level limits, bit2 how the replaced worker went (clean exit / killed)
    nd = NDCode(code, ts)
    nproc = 1 + PART % 2
    joblevel = (PART // 2) % 2 == 1
    status = (0, -9)[(PART // 4) % 2]
    S, H = ((10, 0), (0, 30), (10, 30))[nd.draw(0, 2)]
    if joblevel:
        return _limits(0, 0, H, S, nd, nproc, False, 'none', True, want, replaced=status)
    return _limits(H, S, 0, 0, nd, nproc, False, 'none', True, want, replaced=status)


def h_replaced(code: int, ts: List[int]) -> bool:
    """
    pre: 0 <= code < CODEMAX and len(ts) == K
    post: _
    """
    try:
        return _replaced(code, ts, None)
    except Prune:
        return True


def h_replaced_twin(code: int, ts: List[int]) -> bool:
    """
    pre: 0 <= code < CODEMAX and len(ts) == K
    post: _
    """
    try:
        return _replaced(code, ts, 'soft')
    except Prune:
        return True


# ---------------------------------------------------------------------------
# other job kinds sharing a pool that has default limits: scanned, never timed out

def _others(pt, ps, d1, d2, kind, nproc, want):
    w = W.World()
    with untraced():
        bp.copy = HookedCopy
        HookedCopy.hook = None
    p = w.make_pool(nproc, timeout=_opt(pt), soft_timeout=_opt(ps), enable_timeouts=True)
    if kind == 'map':
        o = W.Observer(p.map_async(W.val, ['m0', 'm1'], chunksize=1), 'map')
    elif kind == 'imap':
        o = W.Observer(p.imap(W.val, ['m0', 'm1']), 'imap')
    else:
        o = W.Observer(p.imap_unordered(W.val, ['m0', 'm1']), 'imapu')
    w.feed()
    try:
        w.scan()                       # nothing accepted yet
        w.w_take(p._pool[0])
        w.drain_results()
        w.adv(d1)
        w.scan()                       # part 0 accepted and running
        if nproc > 1:
            w.w_take(p._pool[1])
            w.drain_results()
        w.w_done(p._pool[0])
        w.adv(d2)
        w.scan()                       # result of part 0 still in the pipe
        w.drain_results()
        w.scan()
    except Prune:
        raise
    except Exception as exc:
        return fail('C05:T5:scan-raises:' + kind + ':' + type(exc).__name__)
    if want:
        return False
    if w.signals:
        return fail('C05:T2:signal-for-job-without-limit:' + kind)
    if o.observe().failed_with(TimeLimitExceeded):
        return fail('C05:T2:job-without-limit-timed-out:' + kind)
    # the job still completes
    for x in p._pool:
        while x.state == 'busy' or (p._inqueue.q and x.state == 'idle'):
            if x.state == 'idle':
                w.w_take(x)
            w.w_done(x)
    w.drain_results()
    w.scan()
    if sorted(o.observe().values()) != [('r', 'm0'), ('r', 'm1')] or not o.complete():
        return fail('C05:T2:job-without-limit-did-not-complete:' + kind)
    return True


def h_others(pt: int, ps: int, d1: int, d2: int) -> bool:
    """
    pre: 0 <= pt <= TMAX and 0 <= ps <= TMAX and 0 <= d1 <= 2 * TMAX and 0 <= d2 <= 2 * TMAX
    post: _
    """
    try:
        return _others(pt, ps, d1, d2, OTHERS[1 + PART % 3], 1 + (PART // 3) % 2, False)
    except Prune:
        return True


def h_others_twin(pt: int, ps: int, d1: int, d2: int) -> bool:
    """
    pre: 0 <= pt <= TMAX and 0 <= ps <= TMAX and 0 <= d1 <= 2 * TMAX and 0 <= d2 <= 2 * TMAX
    post: _
    """
    try:
        return _others(pt, ps, d1, d2, OTHERS[1 + PART % 3], 1 + (PART // 3) % 2, True)
    except Prune:
        return True

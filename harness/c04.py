"""C04 - a worker dying mid-task yields WorkerLostError for exactly its job.

Real code run: Pool.__init__, apply_async/_map_async/imap*, TaskHandler.body,
ResultHandler dispatch, _join_exited_workers, on_job_process_lost,
mark_as_worker_lost, _repopulate_pool, _create_worker_process, result handles.
Symbolic: exit status, which worker dies and when, clock deltas, the
lost-worker timeout, the order of ticks / result handling / other workers'
progress (event vector).
"""
from typing import List
import billiard.pool as bp
from billiard.exceptions import WorkerLostError
from harness.hbase import fail, tier, Prune, ND, trace, PART, NPART, untraced
from harness import world as W

K = tier(4, 5)           # events (each preceded by a clock advance) after the death
LWT_MAX = 100
KINDS = ('apply', 'map', 'imap', 'imapu')


def _pool_ok(p):
    if len(p._pool) != p._processes:
        return False
    idx = sorted(x.index for x in p._pool)
    if idx != list(range(p._processes)):
        return False
    if sorted(p._poolctrl) != sorted(x.pid for x in p._pool):
        return False
    if sorted(p._on_ready_counters) != sorted(x.pid for x in p._pool):
        return False
    return True


def _submit(p, w, kind, items):
    if kind == 'apply':
        h = p.apply_async(W.val, (items[0],))
    elif kind == 'map':
        h = p.map_async(W.val, items, chunksize=1)
        W.int_timeout(h)
    elif kind == 'imap':
        h = p.imap(W.val, items)
    else:
        h = p.imap_unordered(W.val, items)
    w.feed()
    return W.Observer(h, kind)


def _mid_task(kind, code, who, lwt, ev, want_lost_seen, controlled=False):
    """pool of two.  job A = the job under test (kind), whose only part goes to
    worker `who`; job B = an apply job on the other worker.  Both are accepted,
    then worker `who` dies with `code` in the middle of its task."""
    w = W.World()
    with untraced():
        p = w.make_pool(2)
    p.lost_worker_timeout = lwt
    nd = ND(ev)
    A = _submit(p, w, kind, ['A0'])
    B = W.Observer(p.apply_async(W.val, ('B',)), 'apply')
    victim = p._pool[who]
    other = p._pool[1 - who]
    vpid = victim.pid
    w.w_take(victim)
    w.w_take(other)
    w.drain_results()                    # both ACKs handled
    if controlled:
        # the pool itself had told this worker to leave (what shrink() does to a worker it takes for idle) - the worker was in
        # fact running the job: "by any signal or exit status"
        victim._controlled_termination = True
    w.w_exit(victim, code)
    # "the job's lost-worker timeout": what the handle carries (map jobs do not
    # inherit the pool-level setting and always use the 10 s default)
    lwt = A.h._lost_worker_timeout
    t_detect = None
    b_done = False
    late_tick = False
    for _ in range(K):
        w.adv(nd.draw(0, 2 * LWT_MAX + 5))
        e = nd.draw(0, 3)
        if e == 3:
            # another worker leaves while idle (recycled, shrunk, crashed between jobs): one more reaping pass during the grace period,
            # which must neither restart the period nor replace the status recorded for the lost job
            idle = [x for x in p._pool if x.exitcode is None and x.state == 'idle']
            if not idle or t_detect is None:
                raise Prune()
            w.w_exit(idle[0], 0)
            continue
        if e == 0:
            w.tick()
            lost = A.observe().lost
            if t_detect is None:
                t_detect = w.now
                if lost:
                    return fail('C04:L2:lost-at-detection-tick')
            else:
                el = w.now - t_detect
                if el < lwt and lost:
                    return fail('C04:L2:lost-before-timeout')
                if el > lwt:
                    late_tick = True
                    if want_lost_seen:
                        return False      # reachability twin: the deciding branch is reached
                    if not lost:
                        return fail('C04:L5:not-reported-after-timeout:' + kind)
            if not _pool_ok(p):
                return fail('C04:L3:pool-not-restored')
            if vpid in [x.pid for x in p._pool]:
                return fail('C04:L3:dead-worker-kept')
        elif e == 1:
            if other.state != 'busy':
                raise Prune()
            w.w_done(other)
            b_done = True
        else:
            w.rh()
        # the other job is never touched by the loss
        B.observe()
        if B.outcomes:
            if not (b_done and B.outcomes == [(True, ('r', 'B'))]):
                return fail('C04:L4:other-job-affected')
    if W.STATUS_LOG and any(s != code for s in W.STATUS_LOG):
        return fail('C04:L7:wrong-status-reported')
    return True


def _after_work(kind, code, lwt, ev, want_exit_seen):
    """pool of two.  Job A (kind) has two parts (for apply: two apply jobs).
    Worker 0 takes part 0, finishes it and later exits with `code` *between
    jobs* (before or after its result has been handled); worker 1 runs part 1.
    Nobody died holding unfinished work, so nothing may ever be reported lost
    and A completes with its real result."""
    w = W.World()
    with untraced():
        p = w.make_pool(2)
    p.lost_worker_timeout = lwt
    w.drain_bound = lwt          # assumption A-drain (DESIGN.md, C04)
    nd = ND(ev)
    if kind == 'apply':
        obs = [_submit(p, w, 'apply', ['A0']), _submit(p, w, 'apply', ['A1'])]
    else:
        obs = [_submit(p, w, kind, ['A0', 'A1'])]
    w0, w1 = p._pool[0], p._pool[1]
    w.w_take(w0)
    w.w_take(w1)
    w.drain_results()
    w.w_done(w0)
    exited = False
    for _ in range(K):
        w.adv(nd.draw(0, 2 * LWT_MAX + 5))
        e = nd.draw(0, 3)
        if e == 0:
            w.tick()
            if not _pool_ok(p):
                return fail('C04:L3:pool-not-restored')
        elif e == 1:
            if w1.state != 'busy':
                raise Prune()
            w.w_done(w1)
        elif e == 2:
            w.rh()
        else:
            if exited:
                raise Prune()
            w.w_exit(w0, code)
            exited = True
        for o in obs:
            if o.observe().lost:
                return fail('C04:L1:lost-without-death-mid-task:' + kind + (':after-exit' if exited else ''))
    # let everything finish
    if w1.state == 'busy':
        w.w_done(w1)
    w.drain_results()
    w.tick()
    for o in obs:
        if o.observe().lost:
            return fail('C04:L1:lost-without-death-mid-task:' + kind + (':after-exit' if exited else ''))
    got = []
    for o in obs:
        if not o.complete():
            return fail('C04:L6:job-incomplete-after-clean-exit:' + kind)
        got.extend(o.values())
    if sorted(got) != [('r', 'A0'), ('r', 'A1')]:
        return fail('C04:L6:wrong-result-after-clean-exit:' + kind)
    if want_exit_seen and exited:
        return False
    return True


def _kind():
    return KINDS[PART % 4]


def _pre_mid(code, who, lwt, ev):
    return (-64 <= code <= 255 and 1 <= lwt <= LWT_MAX and len(ev) == 2 * K
            and who == (PART // 4) % 2)


def _pre_after(code, lwt, ev):
    return -64 <= code <= 255 and 1 <= lwt <= LWT_MAX and len(ev) == 2 * K


def h_mid(code: int, who: int, lwt: int, ev: List[int]) -> bool:
    """
    pre: _pre_mid(code, who, lwt, ev)
    post: _
    """
    try:
        return _mid_task(_kind(), code, (PART // 4) % 2, lwt, ev, False, (PART // 8) % 2 == 1)
    except Prune:
        return True


def h_mid_twin(code: int, who: int, lwt: int, ev: List[int]) -> bool:
    """
    pre: _pre_mid(code, who, lwt, ev)
    post: _
    """
    try:
        return _mid_task(_kind(), code, (PART // 4) % 2, lwt, ev, True, (PART // 8) % 2 == 1)
    except Prune:
        return True


def h_after(code: int, lwt: int, ev: List[int]) -> bool:
    """
    pre: _pre_after(code, lwt, ev)
    post: _
    """
    try:
        return _after_work(_kind(), code, lwt, ev, False)
    except Prune:
        return True


def h_after_twin(code: int, lwt: int, ev: List[int]) -> bool:
    """
    pre: _pre_after(code, lwt, ev)
    post: _
    """
    try:
        return _after_work(_kind(), code, lwt, ev, True)
    except Prune:
        return True


# ---------------------------------------------------------------------------
# stub validation: the pool world replaces billiard.pool.human_status by a recorder (formatting a symbolic status would realise
# it).  The real function is what the supervisor calls while reaping a dead worker and while building the WorkerLostError, so
# it has to be total: any status a process can end with, named signal or not, gives a text naming it.

def v_human_status(tier_name):
    import billiard.common as bc
    cases = 0
    for status in list(range(-64, 0)) + list(range(0, 256)):
        cases += 1
        try:
            text = bc.human_status(status)
        except Exception as exc:
            return {'status': 'refuted', 'messages': ['human_status(%d) raises %s: the supervisor dies reaping a worker that ended with this status' % (status, type(exc).__name__)],
                    'cases': cases}
        if not isinstance(text, str) or not text:
            return {'status': 'refuted', 'messages': ['human_status(%d) is not a text: %r' % (status, text)], 'cases': cases}
        if status < 0 and str(-status) not in text:
            return {'status': 'refuted', 'messages': ['human_status(%d) does not name signal %d: %r' % (status, -status, text)], 'cases': cases}
        if status >= 0 and str(status) not in text:
            return {'status': 'refuted', 'messages': ['human_status(%d) does not name the exit code: %r' % (status, text)], 'cases': cases}
    return {'status': 'confirmed', 'cases': cases, 'nontrivial_witness': True,
            'detail': 'billiard.common.human_status is total on exit codes 0..255 and signals 1..64 and names the number (%d cases)' % cases}

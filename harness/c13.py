"""C13 - connections deliver every message intact, in order, within bounds.

Real code: _ConnectionBase.send_bytes/recv_bytes/recv_bytes_into/_check_*/
_bad_message_length, Connection._send/_recv/_send_bytes/_recv_bytes.
The kernel is a stub bound through the `write=` / `read=` default arguments of
_send/_recv: every write accepts a symbolic 1..len(buf) bytes or fails with
EINTR, every read returns a symbolic 1..min(wanted, available) bytes, EINTR,
or b'' at the position where the peer closed.
"""
import errno
import struct
from typing import List
import billiard.connection as bc
from harness.hbase import fail, tier, Prune, PART, NPART, realize, untraced, NDCode, CODEMAX

NMAX = tier(3, 5)
NFRAG = 2 * 4 + 2 * 3 + 4          # reads needed when every read returns one byte
FULLFRAG = tier(False, True)     # quick: every read/write moves either one byte or as much as possible; thorough: any count


class WPipe:
    def __init__(self, ks, eintr):
        self.ks = ks          # an NDCode (solver-chosen fragment sizes) or a list (native sweeps)
        self.i = 0
        self.calls = 0
        self.eintr = eintr
        self.data = b''

    def next_k(self, most):
        if isinstance(self.ks, list):
            if self.i >= len(self.ks):
                raise Prune()
            k = self.ks[self.i]
            self.i += 1
            if isinstance(k, bool) or not isinstance(k, int):
                return 1 if k else most
            if FULLFRAG:
                if not (1 <= k <= most):
                    raise Prune()
                return k
            if not (0 <= k <= 1):
                raise Prune()
            return 1 if k == 1 else most
        if FULLFRAG:
            k = self.ks.draw(1, 9)
            if k > most:
                raise Prune()
            return k
        return 1 if self.ks.draw(0, 1) == 1 else most

    def write(self, fd, buf):
        self.calls += 1
        if self.calls == self.eintr:
            raise OSError(errno.EINTR, 'interrupted')
        n = len(buf)
        k = self.next_k(n)
        self.data += bytes(buf[:k])
        return k


class RPipe(WPipe):
    def __init__(self, data, ks, eintr):
        WPipe.__init__(self, ks, eintr)
        self.data = data

    def read(self, fd, want):
        self.calls += 1
        if self.calls == self.eintr:
            raise OSError(errno.EINTR, 'interrupted')
        avail = len(self.data)
        if avail == 0:
            return b''                      # peer closed
        k = self.next_k(min(want, avail))
        out, self.data = self.data[:k], self.data[k:]
        return out


def _conn(readable, writable, wpipe=None, rpipe=None):
    if wpipe is not None:
        bc.Connection._send.__defaults__ = (wpipe.write,)
    if rpipe is not None:
        bc.Connection._recv.__defaults__ = (rpipe.read,)
    return bc.Connection(7, readable=readable, writable=writable)


def _release(c):
    c._handle = None          # never let __del__ close a real descriptor


def _send(code, want):
    nd = NDCode(code)
    n = PART % (NMAX + 1) if NPART > 1 else nd.draw(0, NMAX)
    use_size = ((PART // (NMAX + 1)) % 2 == 1) if NPART > 1 else nd.flag()
    offset = nd.draw(-1, NMAX + 1)
    size = nd.draw(-1, NMAX + 1) if use_size else 0
    eintr = nd.draw(0, 2)
    payload = bytes(range(65, 65 + n))
    pipe = WPipe(nd, eintr)
    tx = _conn(False, True, wpipe=pipe)
    try:
        sz = size if use_size else None
        eff = sz if use_size else n - offset
        valid = offset >= 0 and offset <= n and (not use_size or (sz >= 0 and offset + sz <= n))
        try:
            tx.send_bytes(payload, offset, sz)
        except Prune:
            return True
        except ValueError:
            if valid:
                return fail('C13:send:valid-arguments-rejected')
            if pipe.calls:
                return fail('C13:send:io-before-rejecting-arguments')
            return True
        if not valid:
            return fail('C13:send:invalid-offset-or-size-accepted')
        if want:
            return not (pipe.calls >= 3 and eintr and pipe.calls > eintr)      # split writes + an EINTR retry happen
        expect = struct.pack('!i', eff) + payload[offset:offset + eff]
        if pipe.data != expect:
            return fail('C13:send:wire-bytes-differ')
        return True
    finally:
        _release(tx)


def h_send(code: int) -> bool:
    """
    pre: 0 <= code < CODEMAX
    post: _
    """
    try:
        return _send(code, False)
    except Prune:
        return True


def h_send_twin(code: int) -> bool:
    """
    pre: 0 <= code < CODEMAX
    post: _
    """
    try:
        return _send(code, True)
    except Prune:
        return True


def _recv(n1, n2, cut, ks, eintr, want):
    m1 = bytes(range(65, 65 + n1))
    m2 = bytes(range(97, 97 + n2))
    stream = struct.pack('!i', n1) + m1 + struct.pack('!i', n2) + m2
    total = len(stream)
    stream = stream[:cut]              # the peer closes after `cut` bytes
    pipe = RPipe(stream, ks, eintr)
    rx = _conn(True, False, rpipe=pipe)
    try:
        start = 0
        for expect in (m1, m2):
            end = start + 4 + len(expect)
            try:
                got = rx.recv_bytes()
            except Prune:
                return True
            except EOFError:
                if cut == start:
                    return True            # clean end of stream at a message boundary
                if start < cut < end:
                    return True            # an error was raised for a truncated message (its class is not fixed by the property)
                return fail('C13:recv:EOFError-with-complete-message-available')
            except OSError:
                if start < cut < end:
                    return True
                return fail('C13:recv:OSError-without-truncation')
            if cut < end:
                return fail('C13:recv:message-delivered-from-truncated-stream')
            if got != expect:
                return fail('C13:recv:message-altered')
            start = end
        if want:
            return not (pipe.calls >= 5)
        # both delivered: the next receive reports the end of the stream
        try:
            rx.recv_bytes()
        except Prune:
            return True
        except EOFError:
            return True
        except OSError:
            return fail('C13:recv:clean-end-not-EOFError')
        return fail('C13:recv:message-from-nowhere')
    finally:
        _release(rx)


def _recv_code(code, want, frags=None):
    nd = NDCode(code)
    if NPART > 1:
        n1, n2 = PART % (NMAX + 1), (PART // (NMAX + 1)) % NMAX
    else:
        n1, n2 = nd.draw(0, NMAX), nd.draw(0, NMAX - 1)
    cut = nd.draw(0, 8 + n1 + n2)
    eintr = nd.draw(0, 2)
    return _recv(n1, n2, cut, frags if frags is not None else nd, eintr, want)


def h_recv(code: int, frags: List[bool]) -> bool:
    """
    pre: 0 <= code < CODEMAX and len(frags) == NFRAG
    post: _
    """
    try:
        return _recv_code(code, False, frags if not FULLFRAG else None)
    except Prune:
        return True


def h_recv_twin(code: int, frags: List[bool]) -> bool:
    """
    pre: 0 <= code < CODEMAX and len(frags) == NFRAG
    post: _
    """
    try:
        return _recv_code(code, True, frags if not FULLFRAG else None)
    except Prune:
        return True


def h_limits(code: int) -> bool:
    """
    pre: 0 <= code < CODEMAX
    post: _
    """
    try:
        return _limits_code(code)
    except Prune:
        return True


def _limits_code(code):
    nd = NDCode(code)
    n = PART % (NMAX + 1) if NPART > 1 else nd.draw(0, NMAX)
    into = ((PART // (NMAX + 1)) % 2 == 1) if NPART > 1 else nd.flag()
    rw = nd.flag()
    maxlength = nd.draw(-1, NMAX + 1)
    bufsize = nd.draw(0, NMAX + 1)
    offset = nd.draw(-1, NMAX + 2)
    ks = nd if FULLFRAG else [0] * 24        # quick: bounds and state only (fragmentation is the recv obligation's subject)
    msg = bytes(range(65, 65 + n))
    nxt = b'zz'
    stream = struct.pack('!i', n) + msg + struct.pack('!i', 2) + nxt
    pipe = RPipe(stream, ks, 0)
    rx = _conn(True, rw, rpipe=pipe)
    try:
        if into:
            with untraced():
                buf = bytearray(b'.' * bufsize)      # a plain bytearray (CrossHair's own bytearray has no buffer protocol)
            try:
                got = rx.recv_bytes_into(buf, offset)
            except Prune:
                return True
            except ValueError:
                if 0 <= offset <= bufsize:
                    return fail('C13:into:valid-offset-rejected')
                if pipe.calls:
                    return fail('C13:into:io-before-rejecting-offset')
                return True
            except bc.BufferTooShort as exc:
                if offset + n <= bufsize:
                    return fail('C13:into:BufferTooShort-although-it-fits')
                if exc.args[0] != msg:
                    return fail('C13:into:BufferTooShort-does-not-carry-the-message')
                if bytes(buf) != b'.' * bufsize:
                    return fail('C13:into:buffer-modified-on-BufferTooShort')
                return True
            if not (0 <= offset <= bufsize):
                return fail('C13:into:invalid-offset-accepted')
            if offset + n > bufsize:
                return fail('C13:into:overflowing-message-accepted')
            if got != n or bytes(buf) != b'.' * offset + msg + b'.' * (bufsize - offset - n):
                return fail('C13:into:wrong-bytes-or-count')
            return True
        ml = None if maxlength == NMAX + 1 else maxlength
        try:
            got = rx.recv_bytes(ml)
        except Prune:
            return True
        except ValueError:
            if ml is not None and ml < 0 and pipe.calls == 0:
                return True
            return fail('C13:maxlength:ValueError')
        except OSError:
            if ml is None or n <= ml:
                return fail('C13:maxlength:message-within-limit-rejected')
            # the connection stops being readable (closed when it was read-only)
            if rw:
                if rx.readable:
                    return fail('C13:maxlength:still-readable-after-oversized-message')
            elif not rx.closed:
                return fail('C13:maxlength:not-closed-after-oversized-message')
            try:
                rx.recv_bytes()
            except OSError:
                return True
            except Prune:
                return True
            return fail('C13:maxlength:receives-after-oversized-message')
        if ml is not None and (ml < 0 or n > ml):
            return fail('C13:maxlength:limit-exceeded')
        if got != msg:
            return fail('C13:recv:message-altered')
        return True
    finally:
        _release(rx)


def h_state(closed: bool, readable: bool, op: int) -> bool:
    """
    pre: 0 <= op <= 3
    post: _
    """
    pipe_w = WPipe([1] * 8, 0)
    pipe_r = RPipe(struct.pack('!i', 1) + b'x', [4, 1, 1, 1], 0)
    c = _conn(readable, not readable, wpipe=pipe_w, rpipe=pipe_r)
    real_wait = bc.wait
    bc.wait = lambda objs, timeout=None: []        # readiness itself is the kernel's (outside)
    try:
        if closed:
            c._handle = None
        try:
            if op == 0:
                c.send_bytes(b'ab')
            elif op == 1:
                c.recv_bytes()
            elif op == 2:
                c.recv_bytes_into(bytearray(4))
            else:
                c.poll(0)
        except OSError:
            if pipe_w.calls or pipe_r.calls:
                return fail('C13:state:io-before-rejecting-handle')
            ok_dir = (op == 0) != readable
            if closed or not ok_dir:
                return True
            return fail('C13:state:usable-handle-rejected')
        except Prune:
            return True
        ok_dir = (op == 0) != readable
        if closed or not ok_dir:
            return fail('C13:state:closed-or-wrong-direction-handle-accepted')
        return True
    finally:
        bc.wait = real_wait
        _release(c)


# ---------------------------------------------------------------------------
# threshold tier: the payload length is a solver variable (0 .. 2**31+5)

class SErr(Exception):
    pass


class AbsBuf:
    """bytes-like whose length is symbolic; content = list of (source, lo, hi) ranges"""

    def __init__(self, parts):
        self.parts = parts

    def __len__(self):
        return sum(h - l for (_, l, h) in self.parts)

    def _slice(self, a, b):
        out = []
        pos = 0
        for (t, l, h) in self.parts:
            n = h - l
            s = max(a, pos)
            e = min(b, pos + n)
            if s < e:
                out.append((t, l + (s - pos), l + (e - pos)))
            pos += n
        return AbsBuf(out)

    def __getitem__(self, sl):
        a = sl.start or 0
        b = len(self) if sl.stop is None else sl.stop
        return self._slice(a, b)

    def __add__(self, o):
        return AbsBuf(self.parts + o.parts)

    def __radd__(self, o):
        return AbsBuf(o.parts + self.parts)


class FakeStruct:
    error = SErr

    @staticmethod
    def pack(fmt, n):
        assert fmt == '!i'
        if not (-2 ** 31 <= n < 2 ** 31):
            raise SErr('out of range')
        h = AbsBuf([('hdr', 0, 4)])
        h.value = n
        return h


class AbsPipe:
    def __init__(self, ks):
        self.ks = ks
        self.i = 0
        self.chunks = []

    def write(self, fd, buf):
        n = len(buf)
        if self.i < len(self.ks):
            k = self.ks[self.i]
            self.i += 1
            if not (1 <= k <= n):
                raise Prune()
        else:
            k = n
        self.chunks.append(buf[0:k])
        return k


def _threshold(n, k0, k1, k2, want):
    real_struct = bc.struct
    bc.struct = FakeStruct
    pipe = AbsPipe([k0, k1, k2])
    bc.Connection._send.__defaults__ = (pipe.write,)
    tx = bc.Connection(7, readable=False)
    try:
        payload = AbsBuf([('pay', 0, n)]) if n > 0 else AbsBuf([])
        try:
            tx._send_bytes(payload)
        except Prune:
            return True
        except SErr:
            return n > 2 ** 31 - 1 or fail('C13:threshold:framing-limit')
        if n > 2 ** 31 - 1:
            return fail('C13:threshold:length-beyond-framing-limit-accepted')
        flat = []
        for c in pipe.chunks:
            for p in c.parts:
                if flat and flat[-1][0] == p[0] and flat[-1][2] == p[1]:
                    flat[-1] = (p[0], flat[-1][1], p[2])
                else:
                    flat.append(p)
        expect = [('hdr', 0, 4)] + ([('pay', 0, n)] if n > 0 else [])
        if flat != expect:
            return fail('C13:threshold:wire-bytes-differ')
        if pipe.hdr_value_ok is False:
            return fail('C13:threshold:header')
        if want and n > 16384 and len(pipe.chunks[0]) <= 4:
            return False
        return True
    finally:
        bc.struct = real_struct
        _release(tx)


AbsPipe.hdr_value_ok = True


def h_threshold(n: int, k0: int, k1: int, k2: int) -> bool:
    """
    pre: 0 <= n <= 2**31 + 5
    post: _
    """
    return _threshold(n, k0, k1, k2, False)


def h_threshold_twin(n: int, k0: int, k1: int, k2: int) -> bool:
    """
    pre: 0 <= n <= 2**31 + 5
    post: _
    """
    return _threshold(n, k0, k1, k2, True)


def v_struct(tier_name):
    """the stand-in for struct.pack('!i') rejects exactly what struct rejects"""
    cases = 0
    for n in (-2 ** 31 - 1, -2 ** 31, -1, 0, 1, 16384, 16385, 2 ** 31 - 1, 2 ** 31, 2 ** 31 + 5):
        cases += 1
        try:
            struct.pack('!i', n)
            real = True
        except struct.error:
            real = False
        try:
            FakeStruct.pack('!i', n)
            mine = True
        except SErr:
            mine = False
        if real != mine:
            return {'status': 'error', 'messages': ['struct stand-in differs at %d' % n], 'cases': cases}
    return {'status': 'confirmed', 'cases': cases, 'nontrivial_witness': True,
            'detail': 'FakeStruct.pack accepts/rejects like struct.pack on %d boundary values' % cases}


# ---------------------------------------------------------------------------
# socket-backed connections (Listener.accept / Client): the framing code above assumes blocking reads and writes, so the
# socket handed to Connection must be in blocking mode whatever socket.setdefaulttimeout() was in effect when it was made
# (a default timeout creates sockets - also accepted ones - in non-blocking mode: a read in the middle of a message then
# raises BlockingIOError and the stream loses its framing)

class _FakeSock:
    log = None

    def __init__(self, mod, family=None):
        self.mod = mod
        self.blocking = mod.default_timeout is None      # what socket.socket() / accept() do under a default timeout
        self.eintr = 0

    def setsockopt(self, *a):
        pass

    def setblocking(self, flag):
        self.blocking = bool(flag)

    def settimeout(self, t):
        self.blocking = t is None

    def bind(self, address):
        pass

    def listen(self, backlog):
        pass

    def getsockname(self):
        return ('127.0.0.1', 1234)

    def connect(self, address):
        pass

    def accept(self):
        if self.eintr > 0:
            self.eintr -= 1
            raise OSError(errno.EINTR, 'Interrupted system call')
        return _FakeSock(self.mod), ('127.0.0.1', 4321)

    def detach(self):
        self.mod.detached.append(self.blocking)
        return 77

    def fileno(self):
        return 77

    def close(self):
        pass


class _FakeSocketModule:
    AF_INET = 2
    AF_UNIX = 1
    SOL_SOCKET = 1
    SO_REUSEADDR = 2
    error = OSError

    def __init__(self, default_timeout):
        self.default_timeout = default_timeout
        self.detached = []

    def socket(self, family=None, *a):
        return _FakeSock(self, family)


def h_socket_blocking(side: int, tsel: int, eintr: int) -> bool:
    """
    pre: 0 <= side <= 1 and 0 <= tsel <= 2 and 0 <= eintr <= 2
    post: _
    """
    import errno as _e
    globals()['errno'] = _e
    mod = _FakeSocketModule((None, 0.0, 5.0)[tsel])
    saved = (bc.socket, bc.Connection, getattr(bc, 'detach', None))
    made = []
    bc.socket = mod
    bc.Connection = lambda handle, *a, **k: made.append(handle) or ('connection', handle)
    bc.detach = lambda s: s.detach()
    try:
        if side == 0:
            lst = bc.SocketListener.__new__(bc.SocketListener)
            lst._socket = _FakeSock(mod)
            lst._socket.eintr = eintr
            lst._last_accepted = None
            conn = lst.accept()
        else:
            conn = bc.SocketClient(('127.0.0.1', 1234))
    finally:
        bc.socket, bc.Connection = saved[0], saved[1]
        if saved[2] is not None:
            bc.detach = saved[2]
    if made != [77] or mod.detached == []:
        return fail('C13:socket:no-connection-made')
    if mod.detached != [True]:
        return fail('C13:socket:connection-made-over-a-non-blocking-socket')
    return True


# ---------------------------------------------------------------------------
# "from any bytes-like object": buffers that are not plain byte strings - items wider than a byte (array('h'), array('i')), a
# two-dimensional byte view, a read-only view of a slice.  Offsets, sizes and message lengths are byte counts (solver-chosen); the
# oracle works on the bytes of the object (memoryview.tobytes()).

import array as _array

BK = ('bytearray', 'memoryview', 'array-h', 'array-i', '2d-bytes')


def _mkbuf(kind, nbytes, fill=None):
    """a buffer of the given kind holding at least nbytes bytes (rounded up to whole items); returns (object, its byte length)"""
    if kind == 0:
        b = bytearray(fill * nbytes if fill else bytes(range(65, 65 + nbytes)))
    elif kind == 1:
        b = memoryview(bytearray(fill * nbytes if fill else bytes(range(65, 65 + nbytes))))
    elif kind in (2, 3):
        item = 2 if kind == 2 else 4
        total = -(-nbytes // item) * item
        b = _array.array('h' if kind == 2 else 'i')
        b.frombytes(fill * total if fill else bytes(range(65, 65 + total)))
    else:
        total = -(-nbytes // 2) * 2
        raw = bytearray(fill * total if fill else bytes(range(65, 65 + total)))
        b = memoryview(raw).cast('B', (2, total // 2)) if total else memoryview(raw)
    return b, memoryview(b).nbytes


def _send_kinds(code, want):
    nd = NDCode(code)
    kind = PART % 5 if NPART > 1 else nd.draw(0, 4)
    nbytes = nd.draw(0, 4)
    use_size = nd.flag()
    offset = nd.draw(-1, 5)
    size = nd.draw(-1, 5) if use_size else 0
    with untraced():
        buf, B = _mkbuf(kind, nbytes)
        raw = memoryview(buf).tobytes()
    pipe = WPipe([0] * 8, 0)
    tx = _conn(False, True, wpipe=pipe)
    try:
        sz = size if use_size else None
        eff = sz if use_size else B - offset
        valid = 0 <= offset <= B and (not use_size or (sz >= 0 and offset + sz <= B))
        try:
            with untraced():
                tx.send_bytes(buf, offset, sz)
        except ValueError:
            if valid:
                return fail('C13:send:valid-arguments-rejected:' + BK[kind])
            if pipe.calls:
                return fail('C13:send:io-before-rejecting-arguments:' + BK[kind])
            return True
        if not valid:
            return fail('C13:send:invalid-offset-or-size-accepted:' + BK[kind])
        if want:
            return not (eff >= 2)
        if pipe.data != struct.pack('!i', eff) + raw[offset:offset + eff]:
            return fail('C13:send:wire-bytes-differ:' + BK[kind])
        return True
    finally:
        _release(tx)


def h_send_kinds(code: int) -> bool:
    """
    pre: 0 <= code < CODEMAX
    post: _
    """
    try:
        return _send_kinds(code, False)
    except Prune:
        return True


def h_send_kinds_twin(code: int) -> bool:
    """
    pre: 0 <= code < CODEMAX
    post: _
    """
    try:
        return _send_kinds(code, True)
    except Prune:
        return True


def _into_kinds(code, want):
    nd = NDCode(code)
    kind = PART % 5 if NPART > 1 else nd.draw(0, 4)
    n = nd.draw(0, 5)                 # message length in bytes
    bufbytes = nd.draw(0, 8)
    offset = nd.draw(-1, 9)
    msg = bytes(range(97, 97 + n))
    stream = struct.pack('!i', n) + msg + struct.pack('!i', 2) + b'zz'
    pipe = RPipe(stream, [0] * 24, 0)
    rx = _conn(True, False, rpipe=pipe)
    try:
        with untraced():
            buf, B = _mkbuf(kind, bufbytes, fill=b'.')
        try:
            with untraced():
                got = rx.recv_bytes_into(buf, offset)
        except ValueError:
            if 0 <= offset <= B:
                return fail('C13:into:valid-offset-rejected:' + BK[kind])
            if pipe.calls:
                return fail('C13:into:io-before-rejecting-offset:' + BK[kind])
            return True
        except bc.BufferTooShort as exc:
            if offset + n <= B:
                return fail('C13:into:BufferTooShort-although-it-fits:' + BK[kind])
            if exc.args[0] != msg:
                return fail('C13:into:BufferTooShort-does-not-carry-the-message:' + BK[kind])
            if memoryview(buf).tobytes() != b'.' * B:
                return fail('C13:into:buffer-modified-on-BufferTooShort:' + BK[kind])
            return True
        if not (0 <= offset <= B):
            return fail('C13:into:invalid-offset-accepted:' + BK[kind])
        if offset + n > B:
            return fail('C13:into:overflowing-message-accepted:' + BK[kind])
        if want:
            return not (n >= 3 and offset >= 1)
        if got != n or memoryview(buf).tobytes() != b'.' * offset + msg + b'.' * (B - offset - n):
            return fail('C13:into:message-not-stored-as-received:' + BK[kind])
        if rx.recv_bytes() != b'zz':
            return fail('C13:into:next-message-altered:' + BK[kind])
        return True
    finally:
        _release(rx)


def h_into_kinds(code: int) -> bool:
    """
    pre: 0 <= code < CODEMAX
    post: _
    """
    try:
        return _into_kinds(code, False)
    except Prune:
        return True


def h_into_kinds_twin(code: int) -> bool:
    """
    pre: 0 <= code < CODEMAX
    post: _
    """
    try:
        return _into_kinds(code, True)
    except Prune:
        return True

"""Worker side of C03 (job protocol), C08 (termination signals), C06 (soft
limit inside the task), C09 (quota / memory-limit exits), C12 (unserialisable
result).  Real code: Worker.workloop (statement-instrumented), Worker.__call__,
_do_exit, _make_child_methods/_make_protected_receive/_make_recv_method,
_ensure_messages_consumed, common._shutdown_cleanup, pool.soft_timeout_sighandler.
"""
import signal as _signal
import sys
from typing import List
import billiard.pool as bp
import billiard.common as bc
from billiard.exceptions import SoftTimeLimitExceeded
from harness.hbase import fail, tier, Prune, trace, PART, NPART, realize, NDCode, CODEMAX, THOROUGH
from harness import workerh as H

NT = tier(3, 4)                # tasks in the script
SIGNUMS = sorted(n for n in (bc.signum(s) for s in bc.TERMSIGS_FULL) if n)
MAXPOINT = 36 * (NT - 1)
KSYN = tier(1, 1)
SILENT = tier(0, 1)
SLOW = tier(70, 130)            # silent SYN polls before the parent's answer in h_synack_slow (the loop logs at 60)


def _protocol(kinds, maxtasks, syn, silence, consumed, mem, want):
    """no signals: the message grammar, quota, NACK, unserialisable results"""
    ctl = H.Ctl(0, lambda: None)
    H.install(ctl)
    ctl.mem = list(mem) if mem is not None else []
    n = len(kinds)
    tasks = [(bp.TASK, (100 + j, None, H.task, (ctl, 100 + j, kinds[j]), {})) for j in range(n)]
    answers = None
    nacked = set()
    if syn is not None:
        answers = [(silence[j], bp.NACK if syn[j] else bp.ACK) for j in range(n)]
        nacked = set(100 + j for j in range(n) if syn[j])
    counter = H.Counter(consumed)
    wk, inq, outq, synq = H.make_worker(tasks, ctl, maxtasks=maxtasks or None, synq_answers=answers,
                                        counter=counter, max_memory=(50 if mem is not None else None))
    wk._make_child_methods()
    ft = bp.time
    code = None
    exited = None
    try:
        code = wk.workloop(now=ctl.now, pid=4242)
    except SystemExit as e:
        exited = e.code
    msgs = outq.msgs
    ok, why, done = H.check_grammar(msgs, nacked, 4242, ctl)
    if not ok:
        return fail('C03:grammar:' + why)
    if ctl.unloadable:
        # "reaches the caller as a picklable record": the worker could pickle it, the parent cannot unpickle it
        return fail('C12:record-sent-by-the-worker-cannot-be-unpickled-by-the-parent' + (':exception-class-with-required-constructor-arguments' if 6 in kinds else ''))
    # every task body entered belongs to a job that was accepted and not refused
    for j in ctl.bodies:
        if j in nacked:
            return fail('C03:NACKed-job-executed')
    if len(set(ctl.bodies)) != len(ctl.bodies):
        return fail('C03:job-executed-twice')
    ran = len(ctl.bodies)
    if done != ran:
        return fail('C03:result-count-differs-from-executions')
    if maxtasks and ran > maxtasks:
        return fail('C09:quota-exceeded')
    # ACK carries the acceptance time read before the task ran, READY the own job's result
    for m in msgs:
        if m[0] == bp.ACK:
            # "the acceptance time": read once the request has arrived (not when the worker went idle) and before the task runs
            jid, t_ack = m[1][0], m[1][2]
            if not (ctl.arrived.get(jid, 0) < t_ack and (jid not in ctl.entered or t_ack <= ctl.entered[jid])):
                return fail('C03:ACK-time')
            if m[1][4] != (8 if syn is not None else None):
                return fail('C03:ACK-synq-fd')
        else:
            job, i, (succ, val), fd = m[1]
            kind = kinds[job - 100]
            if fd != 4:
                return fail('C03:READY-fd')
            if kind == 0 and not (succ is True and val == ('ok', job)):
                return fail('C03:READY-wrong-value')
            if kind == 1 and not (succ is False and val.type is ValueError and val.exception.exc.args == (('boom', job),)):
                return fail('C12:exception-not-reported-on-its-job')
            if kind == 2 and not (succ is False and val.type is H.TaskBase):
                return fail('C12:base-exception-not-reported-on-its-job')
            if kind == 4 and not (succ is False and val.type is SystemExit and val.exception.exc.args == (3,)):
                return fail('C02:SystemExit-raised-by-the-task-not-reported-as-its-error')
            if kind == 5 and not (succ is False and val.type is KeyboardInterrupt):
                return fail('C02:KeyboardInterrupt-raised-by-the-task-not-reported-as-its-error')
            if kind == 6 and not (succ is False and val.type is H.NeedsTwo):
                return fail('C12:exception-not-reported-on-its-job')
            if kind in (3, 7) and not (succ is False and val.type is bp.MaybeEncodingError):
                return fail('C12:unserialisable-result-not-reported-as-encoding-error')
    # how the loop ended
    stopped_by_mem = False
    if mem is not None:
        # memory limit 50: the loop returns right after the first task whose rss reading exceeds it
        for idx in range(ran):
            if idx < len(mem) and mem[idx] > 50:
                stopped_by_mem = True
                if ran != idx + 1:
                    return fail('C09:memory-limit-exit-position')
                break
    if exited is not None:
        # sentinel / EOF on the request pipe
        if maxtasks and ran >= maxtasks:
            return fail('C09:quota-reached-but-loop-continued')
        if exited != bp.EX_FAILURE:
            return fail('C03:sentinel-exit-code')
    else:
        if stopped_by_mem:
            if code != bp.EX_RECYCLE:
                return fail('C09:memory-limit-exit-status')
        elif maxtasks:
            if not (ran == maxtasks and code == bp.EX_RECYCLE):
                return fail('C09:quota-exit-status')
        else:
            return fail('C03:loop-returned-without-quota')
    # before leaving, the worker waits until the parent consumed its results (<= 300 x 0.1 s)
    waited = len(ft.sleeps)
    if consumed >= ran and waited != 0:
        return fail('C09:waited-although-results-consumed')
    if consumed < ran and waited != bp.GUARANTEE_MESSAGE_CONSUMPTION_RETRY_LIMIT:
        return fail('C09:guard-not-waited-out')
    if want == 'nack' and nacked and ran < n:
        return False
    if want == 'nack' and not nacked and NPART == 16 and PART == 0:
        return False        # the one part in which every answer is ACK: its witness is a completed run
    if want == 'recycle' and code == bp.EX_RECYCLE:
        return False
    return True


def _lists_ok(kinds, syn, silence):
    # quick: outcomes {return, raise}, only the first answer may be preceded by silent polls
    return (len(kinds) == NT and all(0 <= k <= KSYN for k in kinds)
            and len(syn) == NT and all(0 <= s <= 1 for s in syn)
            and len(silence) == NT and 0 <= silence[0] <= 2 and all(0 <= s <= SILENT for s in silence[1:]))


def _kinds(nd, n, top):
    return [nd.draw(0, top) for _ in range(n)]


def h_protocol(code: int) -> bool:
    """
    pre: 0 <= code < CODEMAX
    post: _
    """
    # NPART = 9: outcome kinds of the first two tasks.  An unserialisable result (kind 3) is only scripted for the last
    # task here (paths through it are slower under the tracer); h_unpicklable covers it in every position.
    try:
        nd = NDCode(code)
        kinds = [PART % 3, (PART // 3) % 3] + [nd.draw(0, 3) for _ in range(NT - 2)] if NPART > 1 else _kinds(nd, NT - 1, 2) + [nd.draw(0, 3)]
        return _protocol(kinds, nd.draw(0, NT), None, None, nd.draw(0, NT), None, None)
    except Prune:
        return True


def h_protocol_twin(code: int) -> bool:
    """
    pre: 0 <= code < CODEMAX
    post: _
    """
    try:
        nd = NDCode(code)
        kinds = [PART % 3, (PART // 3) % 3] + [nd.draw(0, 3) for _ in range(NT - 2)] if NPART > 1 else _kinds(nd, NT - 1, 2) + [nd.draw(0, 3)]
        return _protocol(kinds, nd.draw(0, NT), None, None, nd.draw(0, NT), None, 'recycle')
    except Prune:
        return True


def _syn_args(code):
    nd = NDCode(code)
    if NPART > 1:
        nfix = 4 if NPART == 16 else 2          # the first answers (ACK/NACK) are fixed by the part
        syn = [(PART >> b) & 1 for b in range(nfix)] + [nd.draw(0, 1) for _ in range(NT - nfix)]
    else:
        syn = [nd.draw(0, 1) for _ in range(NT)]
    kinds = _kinds(nd, NT, KSYN)
    silence = [nd.draw(0, 2)] + [nd.draw(0, SILENT) for _ in range(NT - 1)]
    return kinds, nd.draw(0, NT), syn, silence


def h_synack(code: int) -> bool:
    """
    pre: 0 <= code < CODEMAX
    post: _
    """
    try:
        kinds, maxtasks, syn, silence = _syn_args(code)
        return _protocol(kinds, maxtasks, syn, silence, NT, None, None)
    except Prune:
        return True


def h_synack_twin(code: int) -> bool:
    """
    pre: 0 <= code < CODEMAX
    post: _
    """
    try:
        kinds, maxtasks, syn, silence = _syn_args(code)
        return _protocol(kinds, maxtasks, syn, silence, NT, None, 'nack')
    except Prune:
        return True


def _slow(code, wait, want):
    """the parent answers the first job's ACK only after `wait` silent polls (any number: the statement puts no deadline on the
    handshake); a second job follows with its own prompt answer, so an abandoned first job or an answer consumed by the wrong
    job shows in the grammar"""
    nd = NDCode(code)
    syn = [nd.draw(0, 1), nd.draw(0, 1)]
    kinds = [nd.draw(0, 1), nd.draw(0, 1)]
    if want == 'late' and wait != _slow_range()[1]:
        return True
    r = _protocol(kinds, nd.draw(0, 2), syn, [wait, 0], 2, None, None)
    if want == 'late' and r:
        return False
    return r


def _slow_range():
    # the part's share of 0..SLOW (the last part reaches beyond the loop's 60-poll warning)
    return PART * (SLOW + 1) // NPART, (PART + 1) * (SLOW + 1) // NPART - 1


def _slow_pre(wait):
    lo, hi = _slow_range()
    return lo <= wait <= hi


def h_synack_slow(code: int, wait: int) -> bool:
    """
    pre: 0 <= code < CODEMAX and _slow_pre(wait)
    post: _
    """
    try:
        return _slow(code, wait, None)
    except Prune:
        return True


def h_synack_slow_twin(code: int, wait: int) -> bool:
    """
    pre: 0 <= code < CODEMAX and _slow_pre(wait)
    post: _
    """
    try:
        return _slow(code, wait, 'late')
    except Prune:
        return True


def h_sysexit(code: int) -> bool:
    """
    pre: 0 <= code < CODEMAX
    post: _
    """
    # a task that itself raises SystemExit / KeyboardInterrupt (no termination signal): an exception of the task like any other -
    # one READY(False, record of that exception) for its job, the worker goes on with the next job
    try:
        nd = NDCode(code)
        pos = nd.draw(0, NT - 1)
        kinds = [(4 + nd.draw(0, 1)) if j == pos else nd.draw(0, 1) for j in range(NT)]
        return _protocol(kinds, nd.draw(0, NT), None, None, NT, None, None)
    except Prune:
        return True


def h_ctor_exception(code: int) -> bool:
    """
    pre: 0 <= code < CODEMAX
    post: _
    """
    # "any exception a task raises": one whose class needs constructor arguments that .args does not carry
    try:
        nd = NDCode(code)
        pos = nd.draw(0, NT - 1)
        kinds = [6 if j == pos else nd.draw(0, 1) for j in range(NT)]
        return _protocol(kinds, nd.draw(0, NT), None, None, NT, None, None)
    except Prune:
        return True


def h_unpicklable(code: int) -> bool:
    """
    pre: 0 <= code < CODEMAX
    post: _
    """
    try:
        nd = NDCode(code)
        pos = nd.draw(0, 6)
        shown = nd.draw(0, 1)            # the value can / cannot even be repr()ed
        kinds = [(3, 7)[shown] if (pos + 1) & (1 << j) else 0 for j in range(3)]      # every non-empty set of positions
        return _protocol(kinds, nd.draw(0, NT), None, None, nd.draw(0, NT), None, None)
    except Prune:
        return True


MEMS = (-1, 50, 51, 100) if not THOROUGH else (-1, 0, 10, 50, 51, 100)


def h_memlimit(code: int) -> bool:
    """
    pre: 0 <= code < CODEMAX
    post: _
    """
    try:
        nd = NDCode(code)
        kinds = [nd.draw(0, 2)] + [0] * (NT - 1)          # the memory check follows every completed task, whatever its outcome
        maxtasks = NT * nd.draw(0, 1)
        mem = [MEMS[nd.draw(0, len(MEMS) - 1)] for _ in range(NT)]
        consumed = nd.draw(0, NT)          # how many of this worker's results the parent has consumed when the loop is left
        return _protocol(kinds, maxtasks, None, None, consumed, mem, None)
    except Prune:
        return True


# ---------------------------------------------------------------------------
# termination signal at a symbolic crash point, through Worker.__call__

def _termination(kinds, catch, maxtasks, sigat, signum, second_at, want):
    exits = []
    handler_runs = []

    def handler():
        handler_runs.append(1)
        bc._shutdown_cleanup(signum, None)        # the real handler

    ctl = H.Ctl(sigat, handler)
    H.install(ctl)
    n = len(kinds)
    tasks = [(bp.TASK, (100 + j, None, H.task, (ctl, 100 + j, kinds[j], catch), {})) for j in range(n)]

    deaths_started = [False]

    def on_exit(pid, code):
        exits.append((pid, code))
        deaths_started[0] = deaths_started[0] or not ctl.fired     # the exit path had begun before the signal
        ctl.point('on_exit')       # user code: a termination signal may arrive while the exit callback runs
    wk, inq, outq, synq = H.make_worker(tasks, ctl, maxtasks=maxtasks or None, counter=H.Counter(99), on_exit=on_exit)
    saved_exit = sys.exit
    final = None
    try:
        try:
            wk()
        except H.Exited as e:
            final = e.code
        except SystemExit as e:
            # raised by the signal handler outside every handler of the worker (in the exit callback): it leaves Worker.__call__
            # and BaseProcess._bootstrap turns it into the exit status (C19)
            final = e.code
    finally:
        sys.exit = saved_exit
    if final is None:
        return fail('C08:worker-call-returned-without-exiting')
    msgs = [m for m in outq.msgs if m[0] != bp.DEATH]
    deaths = [m for m in outq.msgs if m[0] == bp.DEATH]
    ok, why, done = H.check_grammar(msgs, set(), 4242, ctl)
    if not ok:
        return fail('C03:grammar:' + why)
    if len(exits) != 1:
        return fail('C08:exit-callback-count')
    if len(deaths) > 1 or (deaths and deaths[0][1] != (4242, exits[0][1])):
        return fail('C08:death-notice')
    if exits[0][1] != final and not (ctl.fired and ctl.where in ('put', 'on_exit') and deaths == []):
        # once the DEATH notice has told the parent the status (the parent answers it with TERM), a signal must not change it:
        # "exits with the recycle status" (C09), "clean or recycle exits never consume budget" (C11)
        return fail('C08:exit-status-differs-from-callback' + (':after-the-DEATH-notice' if deaths else ''))
    if ctl.fired:
        if ctl.swallowed:
            raise Prune()      # task code that catches and discards SystemExit is outside the claim
        if want == 'sig':
            return False
        # after the termination signal no further task body starts ...
        if ctl.bodies_after_sig > 0:
            return fail('C08:task-started-after-termination-signal' + (':signal-in-task' if ctl.was_in_task else ''))
        # ... and, when it arrived inside the work loop, the worker exits with the handler's status
        if not deaths_started[0] and final != -(256 - signum):
            return fail('C08:exit-status-after-signal')
        if bc._should_have_exited[0] is not True:
            return fail('C08:flag')
    else:
        if maxtasks and done == maxtasks:
            if final != bp.EX_RECYCLE:
                return fail('C09:quota-exit-status')
        elif final != bp.EX_OK and 4 not in kinds:
            # (a job that itself called sys.exit(k) leaves k behind as the status of a later sentinel-driven exit: observed on the
            # unchanged tree, no property speaks about the status of a worker told to leave at close(), so it is not asserted)
            return fail('C08:sentinel-exit-status')
    return True


def h_exit_status(code: int) -> bool:
    """
    pre: 0 <= code < CODEMAX
    post: _
    """
    # no signal at all: the whole life of a worker through the real Worker.__call__ / workloop / _do_exit with tasks that return, raise, or
    # call sys.exit(3) themselves (an error of that job like any other) - the status the process exits with, the one passed to the exit
    # callback and the one in the DEATH notice are the recycle status when the quota was reached and the clean status otherwise
    try:
        nd = NDCode(code)
        kinds = [(0, 1, 4)[nd.draw(0, 2)] for _ in range(NT)]
        maxtasks = nd.draw(0, NT)
        return _termination(kinds, False, maxtasks, 10 ** 9, 15, None, None)
    except Prune:
        return True


def _term_args(code):
    # NPART splits the crash point range (sigat % NPART == PART); the signal number stays a solver integer of its own
    nd = NDCode(code)
    kinds = _kinds(nd, NT - 2, 2) + [nd.draw(0, 3)]
    catch = nd.flag()
    maxtasks = (NT - 1) * nd.draw(0, 1)
    sigat = nd.draw(0, 9) * NPART + PART if NPART > 1 else nd.draw(0, 9) * 9 + nd.draw(0, 8)
    if sigat > MAXPOINT:
        raise Prune()
    return kinds, catch, maxtasks, sigat


def h_termination(code: int, signum: int) -> bool:
    """
    pre: 0 <= code < CODEMAX and SIGNUMS[0] <= signum <= SIGNUMS[-1]
    post: _
    """
    try:
        kinds, catch, maxtasks, sigat = _term_args(code)
        return _termination(kinds, catch, maxtasks, sigat, signum, 0, None)
    except Prune:
        return True


def h_termination_twin(code: int, signum: int) -> bool:
    """
    pre: 0 <= code < CODEMAX and SIGNUMS[0] <= signum <= SIGNUMS[-1]
    post: _
    """
    try:
        kinds, catch, maxtasks, sigat = _term_args(code)
        return _termination(kinds, catch, maxtasks, sigat, signum, 0, 'sig')
    except Prune:
        return True


# ---------------------------------------------------------------------------
# soft time limit: SIGUSR1's handler runs while task j is executing

def _soft(kinds, catch, sigat, want):
    def handler():
        bp.soft_timeout_sighandler(_signal.SIGUSR1, None)     # the real handler
    ctl = H.Ctl(sigat, handler)
    H.install(ctl)
    n = len(kinds)
    tasks = [(bp.TASK, (100 + j, None, H.task, (ctl, 100 + j, kinds[j], catch), {})) for j in range(n)]
    wk, inq, outq, synq = H.make_worker(tasks, ctl, counter=H.Counter(99))
    wk._make_child_methods()
    try:
        wk.workloop(now=ctl.now, pid=4242)
    except SystemExit:
        pass
    except SoftTimeLimitExceeded:
        if ctl.fired and not ctl.was_in_task:
            raise Prune()      # the signal arrived outside task code: not what C06 speaks about
        return fail('C06:soft-limit-escaped-the-task')
    if not ctl.fired or not ctl.was_in_task:
        return True
    if want:
        return False
    # the exception was raised inside exactly the running task
    ready = {m[1][0]: m[1][2] for m in outq.msgs if m[0] == bp.READY}
    j = ctl.sig_job
    if j not in ready:
        return fail('C06:job-lost-after-soft-limit')
    if catch and ctl.where == 'task':
        # the task caught it and returned a value: delivered normally
        if ready[j] != (True, ('caught', j)):
            return fail('C06:value-of-catching-task-not-delivered')
    elif not (ready[j][0] is False and ready[j][1].type is SoftTimeLimitExceeded):
        return fail('C06:soft-limit-not-raised-in-its-task')
    for jj, (succ, val) in ready.items():
        if jj != j:
            if not succ and val.type is SoftTimeLimitExceeded:
                return fail('C06:soft-limit-raised-in-another-task')
            kind = kinds[jj - 100]
            if kind == 0 and ready[jj] != (True, ('ok', jj)):
                return fail('C06:other-task-affected')
    if len(ready) != n:
        return fail('C06:job-lost-after-soft-limit')
    return True


def _soft_args(code):
    # NPART = 6: the first task's outcome kind (unserialisable results are h_unpicklable's) and whether tasks catch
    nd = NDCode(code)
    if NPART > 1:
        kinds = [PART % 3] + _kinds(nd, NT - 2, 2)
        catch = (PART // 3) % 2 == 1
    else:
        kinds = _kinds(nd, NT - 1, 2)
        catch = nd.flag()
    sigat = 1 + nd.draw(0, 9) * 9 + nd.draw(0, 8)
    if sigat > MAXPOINT:
        raise Prune()
    return kinds, catch, sigat


def h_soft(code: int) -> bool:
    """
    pre: 0 <= code < CODEMAX
    post: _
    """
    try:
        kinds, catch, sigat = _soft_args(code)
        return _soft(kinds, catch, sigat, False)
    except Prune:
        return True


def h_soft_twin(code: int) -> bool:
    """
    pre: 0 <= code < CODEMAX
    post: _
    """
    try:
        kinds, catch, sigat = _soft_args(code)
        return _soft(kinds, catch, sigat, True)
    except Prune:
        return True


def v_instrumentation(tier_name):
    ok, why, cases = H.validate_instrumentation()
    return {'status': 'confirmed' if ok else 'error', 'cases': cases, 'detail': why or
            'instrumented Worker.workloop (%d statement points) == original on %d concrete scripts' % (H.NPOINTS_STATIC, cases),
            'nontrivial_witness': True, 'messages': [why] if why else []}


# ---------------------------------------------------------------------------
# Worker.after_fork: the pool's termination handlers are installed AFTER the user's initializer ran, so they win

def h_after_fork(code: int) -> bool:
    """
    pre: 0 <= code < CODEMAX
    post: _
    """
    import signal as real_signal
    try:
        nd = NDCode(code)
        full = nd.flag()
        names = sorted(bc.TERMSIGS_FULL if full else bc.TERMSIGS_DEFAULT)
        nums = [n for n in (bc.signum(s) for s in names) if n]
        cands = nums[:15] + ([bp.SIG_SOFT_TIMEOUT] if bp.SIG_SOFT_TIMEOUT and bp.SIG_SOFT_TIMEOUT not in nums[:15] else [])
        target = cands[nd.draw(0, len(cands) - 1)]          # a termination signal or the soft-limit signal
        init_kind = nd.draw(0, 2)          # the initializer installs: nothing / its own handler / SIG_IGN
    except Prune:
        return True
    table = {}

    class FakeSignal:
        def __getattr__(self, name):
            return getattr(real_signal, name)

        def signal(self, num, handler):
            old = table.get(num, real_signal.SIG_DFL)
            table[num] = handler
            return old

        def getsignal(self, num):
            return table.get(num, real_signal.SIG_DFL)
    fs = FakeSignal()

    def user_handler(signum, frame):
        pass

    def initializer():
        if init_kind == 1:
            fs.signal(target, user_handler)
        elif init_kind == 2:
            fs.signal(target, real_signal.SIG_IGN)
    saved = (bp.signal, bc.signal, bc.maybe_setsignal)
    bp.signal = fs
    bc.signal = fs

    def maybe_setsignal(num, handler):
        fs.signal(num, handler)
    bc.maybe_setsignal = maybe_setsignal
    try:
        ctl = H.Ctl(0, lambda: None)
        inq = H.Inq([], ctl)
        outq = H.Outq(ctl)
        wk = bp.Worker(inq, outq, None, initializer=initializer, sigprotection=full)
        wk.after_fork()
    finally:
        bp.signal, bc.signal, bc.maybe_setsignal = saved
    if bp.SIG_SOFT_TIMEOUT and table.get(bp.SIG_SOFT_TIMEOUT, real_signal.SIG_DFL) is not bp.soft_timeout_sighandler:
        # whatever the initializer did to it (reset to the default action, own handler, ignored): the soft time limit is delivered by
        # this signal, with the default action it would kill the worker instead of raising inside the task
        return fail('C06:soft-limit-handler-not-installed')
    for n in nums:
        h = table.get(n, real_signal.SIG_DFL)
        if n == bp.SIG_SOFT_TIMEOUT:
            continue
        if n == target and init_kind == 2:
            continue                      # an explicitly ignored signal is left ignored (reset_signals respects SIG_IGN)
        if h is not bc._shutdown_cleanup:
            return fail('C08:termination-handler-not-installed' + (':user-initializer-handler-wins' if h is user_handler else ''))
    if not (inq._writer.closed and outq._reader.closed):
        return fail('C08:after-fork-does-not-close-the-parent-ends')
    return True


# ---------------------------------------------------------------------------
# parent side of the handshake on the job handle itself: ApplyResult._ack / _set

def _parent_ack(code, want):
    nd = NDCode(code)
    synack = nd.flag()                 # the pool was built with the acknowledgement handshake (the handle has a send_ack)
    cancelled = nd.flag()              # _cancel() was called before the worker's ACK is processed
    has_cb = nd.flag()
    fd = (None, 8)[nd.draw(0, 1)] if synack else None          # the worker's SYN pipe as announced in its ACK
    late = nd.flag()                   # the ACK is processed after the result (a message order the result handler can see)
    cache = {}
    sent = []
    events = []

    def send_ack(resp, pid, job, fd_):
        sent.append((resp, pid, job, fd_))
    r = bp.ApplyResult(cache, lambda v: events.append(('result', v)),
                       accept_callback=(lambda pid, t: events.append(('accept', pid, t))) if has_cb else None,
                       send_ack=send_ack if synack else None)
    job = r._job
    if cancelled:
        r._cancel()
    refused = synack and cancelled
    if want:
        return not refused
    if late and not refused:
        r._set(None, (True, 'v'))
        r._ack(None, 123, 4242, fd)
    else:
        r._ack(None, 123, 4242, fd)
        if not refused:
            r._set(None, (True, 'v'))
    if refused:
        # "a job cancelled before acceptance is refused": NACK to the worker that asked, no acceptance recorded as a running job
        if sent != ([(bp.NACK, 4242, job, fd)] if fd else []):
            return fail('C03:parent:cancelled-job-not-refused-with-NACK')
        if ('accept', 4242, 123) in events:
            return fail('C03:parent:accept-callback-for-a-refused-job')
        return True
    # every other job a worker takes: accepted, owner and acceptance time recorded, accept callback before the result callback
    if r.worker_pids() != [4242] or r._time_accepted != 123 or not r._accepted:
        return fail('C03:parent:owner-or-acceptance-time-not-recorded' + (':cancel-flag-without-handshake' if cancelled else ''))
    exp = ([('accept', 4242, 123)] if has_cb else [])
    exp = (exp + [('result', 'v')]) if not late else ([('result', 'v')] + exp)
    if events != exp:
        return fail('C03:parent:accept-and-result-callbacks' + (':cancel-flag-without-handshake' if cancelled else ''))
    if synack and fd and sent != [(bp.ACK, 4242, job, fd)]:
        return fail('C03:parent:ACK-not-confirmed-to-the-worker')
    if not synack and sent:
        return fail('C03:parent:handshake-answer-without-handshake')
    if job in cache:
        return fail('C01:resolved-job-still-in-the-cache')
    return True


def h_parent_ack(code: int) -> bool:
    """
    pre: 0 <= code < CODEMAX
    post: _
    """
    try:
        return _parent_ack(code, False)
    except Prune:
        return True


def h_parent_ack_twin(code: int) -> bool:
    """
    pre: 0 <= code < CODEMAX
    post: _
    """
    try:
        return _parent_ack(code, True)
    except Prune:
        return True

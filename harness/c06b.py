"""C06 - "raised ... exactly once for that job" across shutdown of a *threaded* pool.

In a threaded pool the time-limit scanner is a thread of its own (TimeoutHandler.body: one handle_timeouts generator
with one set of already-signalled jobs); after close() the result-handler thread drains the remaining results in
finish_at_shutdown.  The helper threads are played by the harness on one thread: PoolThread.start/join are no-ops,
the scanner thread is its real generator advanced by the harness, the task feeder is the real TaskHandler.body, the
result handler's shutdown phase is the real ResultHandler.finish_at_shutdown; while it polls, time passes, the
scanner thread scans and the worker may finish.
"""
from typing import List
import billiard.pool as bp
from harness.hbase import fail, tier, Prune, NDCode, CODEMAX, untraced, PART, NPART
from harness import world as W

K = tier(3, 4)          # polls of the result handler during shutdown (each: clock advance, scanner scan, maybe the worker finishes)
SMAX = 20


class Hang(Exception):
    pass


def _threaded(code, ts, want, hard=False):
    nd = NDCode(code, ts)
    # PART: bit0 pool size, bit1 job-level / pool-level limit, bit2 the scanner thread has already scanned once before close()
    nproc = 1 + PART % 2
    joblevel = (PART // 2) % 2 == 1
    scan_before = (PART // 4) % 2 == 1
    S = 5 + nd.draw(0, 10)
    w = W.World()
    saved = (bp.PoolThread.start, bp.PoolThread.join)
    bp.PoolThread.start = lambda self, *a, **k: setattr(self, '_was_started', True)
    bp.PoolThread.join = lambda self, timeout=None: None
    try:
        lim = 'timeout' if hard else 'soft_timeout'
        p = w.make_pool(nproc, threads=True, enable_timeouts=True, **{lim: None if joblevel else S})
        calls = []

        def tcb(soft=None, timeout=None):
            calls.append((soft, timeout))
        A = W.Observer(p.apply_async(W.val, ('A',), timeout_callback=tcb, **{lim: S if joblevel else None}), 'apply')
        w.feed()
        wk = p._pool[0]
        w.w_take(wk)
        w.drain_results()
        t_acc = A.h._time_accepted
        scanner = p._timeout_handler.handle_timeouts()         # the scanner thread's own generator (TimeoutHandler.body)
        due_seen = [False]

        scanner_alive = [True]

        def scan():
            if not scanner_alive[0]:
                return
            due = w.now >= t_acc + S and not A.h.ready()
            if due:
                due_seen[0] = True              # a scan period has come round with the limit expired and the job unfinished
            try:
                next(scanner)
            except StopIteration:
                scanner_alive[0] = False        # the scanner thread has ended (TimeoutHandler.body leaves its loop)
        if scan_before:
            w.adv(nd.draw(0, 2 * SMAX))
            scan()
        p.close()
        th = p._task_handler
        th.body()                       # the feeder thread: sentinels for the result handler and the workers
        polls = [0]

        def idle(timeout):
            polls[0] += 1
            if polls[0] > K + 6:
                raise Hang()
            if polls[0] <= K:
                w.adv(nd.draw(0, 2 * SMAX))
                scan()                  # the scanner thread runs on until terminate()
                if wk.state == 'busy' and not wk.got_term and nd.flag() and not (hard and polls[0] < K):
                    w.w_done(wk)        # the task caught the soft limit (if any) and returns its value
            else:
                if wk.state == 'busy' and not wk.got_term:
                    w.w_done(wk)
            for x in w.procs:
                if x.exitcode is None and x.got_term and x.obeys_term:
                    x.die(-15)
            for x in p._pool:
                if x.exitcode is None and x.state == 'idle' and p._inqueue.q:
                    w.w_take(x)
                if x.exitcode is None and x.state == 'leaving':
                    w.w_leave(x)
        p._outqueue._reader.idle_hook = idle
        try:
            p._result_handler.finish_at_shutdown()
        except Hang:
            return fail('C07:J2:join-hangs:threaded-shutdown')
        finally:
            p._outqueue._reader.idle_hook = None
        if not scanner_alive[0]:
            # "a time-limit scanner, if configured, runs on until terminate()" (C07): limits keep being enforced after close()
            return fail('C05:time-limit-scanner-stopped-before-terminate')
        if want:
            return False if (due_seen[0] and (wk.soft_signals >= 1 or hard)) else True
        if hard:
            from billiard.exceptions import TimeLimitExceeded
            if due_seen[0]:
                # the scanner thread runs on after close(): the overrunning job fails and its worker is told to go
                if not A.observe().failed_with(TimeLimitExceeded):
                    return fail('C05:T1:not-failed-at-expiry:after-close')
                if (wk.pid, 15) not in w.signals:
                    return fail('C05:T1:no-TERM:after-close')
                if calls != [(False, S)]:
                    return fail('C05:T1:timeout-callback:after-close')
            elif A.observe().outcomes != [(True, ('r', 'A'))]:
                return fail('C05:T2:wrong-outcome:after-close')
            return True
        if A.observe().outcomes != [(True, ('r', 'A'))]:
            return fail('C06:task-that-catches-the-soft-limit-loses-its-value')
        expect = 1 if due_seen[0] else 0
        if wk.soft_signals != expect:
            return fail('C06:soft-repeated-or-early:threaded-shutdown' if wk.soft_signals > expect else 'C06:soft-not-delivered:threaded-shutdown')
        if calls != [(True, S)] * expect:
            return fail('C06:soft-callback:threaded-shutdown')
        return True
    finally:
        bp.PoolThread.start, bp.PoolThread.join = saved


def h_threaded_shutdown(code: int, ts: List[int]) -> bool:
    """
    pre: 0 <= code < CODEMAX and len(ts) == K + 1
    post: _
    """
    try:
        return _threaded(code, ts, False)
    except Prune:
        return True


def h_threaded_shutdown_twin(code: int, ts: List[int]) -> bool:
    """
    pre: 0 <= code < CODEMAX and len(ts) == K + 1
    post: _
    """
    try:
        return _threaded(code, ts, True)
    except Prune:
        return True


def h_hard_after_close(code: int, ts: List[int]) -> bool:
    """
    pre: 0 <= code < CODEMAX and len(ts) == K + 1
    post: _
    """
    try:
        return _threaded(code, ts, False, hard=True)
    except Prune:
        return True


def h_hard_after_close_twin(code: int, ts: List[int]) -> bool:
    """
    pre: 0 <= code < CODEMAX and len(ts) == K + 1
    post: _
    """
    try:
        return _threaded(code, ts, True, hard=True)
    except Prune:
        return True

"""C06 - "raised ... exactly once for that job" across shutdown of a *threaded* pool.

In a threaded pool the time-limit scanner is a thread of its own (TimeoutHandler.body: one handle_timeouts generator
with one set of already-signalled jobs); after close() the result-handler thread drains the remaining results in
finish_at_shutdown.  The helper threads are played by the harness on one thread: PoolThread.start/join are no-ops,
the scanner thread is its real generator advanced by the harness, the task feeder is the real TaskHandler.body, the
result handler's shutdown phase is the real ResultHandler.finish_at_shutdown; while it polls, time passes, the
scanner thread scans and the worker may finish.
"""
from typing import List
import billiard.pool as bp
from harness.hbase import fail, tier, Prune, NDCode, CODEMAX, untraced, PART, NPART
from harness import world as W

K = tier(3, 4)          # polls of the result handler during shutdown (each: clock advance, scanner scan, maybe the worker finishes)
SMAX = 20


class Hang(Exception):
    pass


def _threaded(code, ts, want):
    nd = NDCode(code, ts)
    # PART: bit0 pool size, bit1 job-level / pool-level limit, bit2 the scanner thread has already scanned once before close()
    nproc = 1 + PART % 2
    joblevel = (PART // 2) % 2 == 1
    scan_before = (PART // 4) % 2 == 1
    S = 5 + nd.draw(0, 10)
    w = W.World()
    saved = (bp.PoolThread.start, bp.PoolThread.join)
    bp.PoolThread.start = lambda self, *a, **k: setattr(self, '_was_started', True)
    bp.PoolThread.join = lambda self, timeout=None: None
    try:
        p = w.make_pool(nproc, threads=True, soft_timeout=None if joblevel else S, enable_timeouts=True)
        calls = []

        def tcb(soft=None, timeout=None):
            calls.append((soft, timeout))
        A = W.Observer(p.apply_async(W.val, ('A',), soft_timeout=S if joblevel else None, timeout_callback=tcb), 'apply')
        w.feed()
        wk = p._pool[0]
        w.w_take(wk)
        w.drain_results()
        t_acc = A.h._time_accepted
        scanner = p._timeout_handler.handle_timeouts()         # the scanner thread's own generator (TimeoutHandler.body)
        due_seen = [False]

        def scan():
            next(scanner)
            if w.now >= t_acc + S and not A.h.ready():
                due_seen[0] = True
        if scan_before:
            w.adv(nd.draw(0, 2 * SMAX))
            scan()
        p.close()
        th = p._task_handler
        th.body()                       # the feeder thread: sentinels for the result handler and the workers
        polls = [0]

        def idle(timeout):
            polls[0] += 1
            if polls[0] > K + 6:
                raise Hang()
            if polls[0] <= K:
                w.adv(nd.draw(0, 2 * SMAX))
                scan()                  # the scanner thread runs on until terminate()
                if wk.state == 'busy' and nd.flag():
                    w.w_done(wk)        # the task caught the soft limit (if any) and returns its value
            else:
                if wk.state == 'busy':
                    w.w_done(wk)
            for x in p._pool:
                if x.exitcode is None and x.state == 'idle' and p._inqueue.q:
                    w.w_take(x)
                if x.exitcode is None and x.state == 'leaving':
                    w.w_leave(x)
        p._outqueue._reader.idle_hook = idle
        try:
            p._result_handler.finish_at_shutdown()
        except Hang:
            return fail('C07:J2:join-hangs:threaded-shutdown')
        finally:
            p._outqueue._reader.idle_hook = None
        if want:
            return False if (due_seen[0] and wk.soft_signals >= 1) else True
        if A.observe().outcomes != [(True, ('r', 'A'))]:
            return fail('C06:task-that-catches-the-soft-limit-loses-its-value')
        expect = 1 if due_seen[0] else 0
        if wk.soft_signals != expect:
            return fail('C06:soft-repeated-or-early:threaded-shutdown' if wk.soft_signals > expect else 'C06:soft-not-delivered:threaded-shutdown')
        if calls != [(True, S)] * expect:
            return fail('C06:soft-callback:threaded-shutdown')
        return True
    finally:
        bp.PoolThread.start, bp.PoolThread.join = saved


def h_threaded_shutdown(code: int, ts: List[int]) -> bool:
    """
    pre: 0 <= code < CODEMAX and len(ts) == K + 1
    post: _
    """
    try:
        return _threaded(code, ts, False)
    except Prune:
        return True


def h_threaded_shutdown_twin(code: int, ts: List[int]) -> bool:
    """
    pre: 0 <= code < CODEMAX and len(ts) == K + 1
    post: _
    """
    try:
        return _threaded(code, ts, True)
    except Prune:
        return True

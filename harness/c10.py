"""C10 - the slot semaphore is bounded, conserved and never leaked.

(a) inductive step on the real LaxBoundedSemaphore from an arbitrary valid
    state; (b) the real pool with put-locks in the stubbed process world:
    conservation while no worker exits, blocking exactly at the bound, all slots
    free at quiescence.
"""
from typing import List
import billiard.pool as bp
from harness.hbase import fail, tier, Prune, ND, trace, PART, NPART, untraced, realize, NDCode, CODEMAX
from harness import world as W

K = tier(5, 6)
LWT = 10


def h_sem_step(v: int, b: int, op: int) -> bool:
    """
    pre: 0 <= v <= b and b <= 1000 and 0 <= op < 5 and (op < 4 or b - v <= 4)
    post: _
    """
    s = bp.LaxBoundedSemaphore(1)
    s._value = v
    s._initial_value = b
    if op == 0:
        s.release()
        return (s._initial_value == b and s._value == (v + 1 if v < b else v)) or fail('C10:step:release')
    if op == 1:
        ok = s.acquire(False)
        return ((ok == (v > 0)) and s._value == (v - 1 if v > 0 else 0) and s._initial_value == b) or fail('C10:step:acquire')
    if op == 2:
        s.grow()
        return (s._value == v + 1 and s._initial_value == b + 1) or fail('C10:step:grow')
    if op == 3:
        if v == 0:
            return True          # shrink would block: the caller holds no free slot
        s.shrink()
        return (s._value == v - 1 and s._initial_value == b - 1 and 0 <= s._value <= s._initial_value) or fail('C10:step:shrink')
    s.clear()
    return (s._value == b and s._initial_value == b) or fail('C10:step:clear')


def h_sem_step_twin(v: int, b: int, op: int) -> bool:
    """
    pre: 0 <= v <= b and b <= 1000 and 0 <= op < 5 and (op < 4 or b - v <= 4)
    post: _
    """
    s = bp.LaxBoundedSemaphore(1)
    s._value = v
    s._initial_value = b
    if op == 0 and v == b:
        s.release()
        return s._value != b       # the capped release is reached
    return True


class Propagated(Exception):
    """raised by a result callback and listed in callbacks_propagate: it leaves the result handler's turn"""


def _pool(nd, mode, want):
    w = W.World()
    with untraced():
        sem = W.VSemaphore(2)
        p = w.make_pool(2, putlocks=True, semaphore=sem, lost_worker_timeout=LWT)
    cb_fail = []
    if mode == 'send':
        p.threads = True
    jobs = []            # [handle, answered?]
    any_exit = False
    maps = []
    send_failed = False
    nsub = 0
    if mode == 'map':
        # prefix: one apply job (takes a slot) and one map job (takes none) are queued
        jobs.append([p.apply_async(W.val, ('j0',)), False])
        nsub = 1
        maps.append(p.map_async(W.val, ['m0', 'm1'], chunksize=1))
        w.feed()
    for _ in range(K - 2 if mode == 'fault' else K):
        e = nd.draw(0, 3 if mode == 'callback' else 5 if mode == 'grow' else 6)
        if e == 0:
            if nsub >= 3:
                raise Prune()
            outstanding = sum(1 for j in jobs if not j[1])
            cb = None
            if mode == 'callback':
                # user code run by the result handler when the job's result arrives: by then the job's slot is free again
                # ("given back when the job's result arrives"), so a chained submission finds it
                cbkind = nd.draw(0, 2)
                if cbkind:
                    def cb(value, cbkind=cbkind, me=len(jobs)):
                        others = sum(1 for k, j in enumerate(jobs) if not j[1] and k != me and not j[0].ready())
                        if sem._value != sem._initial_value - others:
                            cb_fail.append('C10:S3:slot-still-held-while-the-job-s-callbacks-run')
                        if cbkind == 2:
                            raise Propagated()
            try:
                h = p.apply_async(W.val, ('j%d' % nsub,), callback=cb, callbacks_propagate=(Propagated,))
                blocked = False
            except W.WouldBlock:
                blocked = True
            if not any_exit and not maps and not send_failed:
                if blocked != (outstanding >= sem._initial_value):
                    return fail('C10:S2:blocks-iff-bound-outstanding')
            if blocked:
                if want == 'block':
                    return False
            else:
                jobs.append([h, False])
                nsub += 1
                if mode == 'send':
                    fa = nd.draw(-1, 0)
                    w.feed(put_fail_at=fa, put_fail_kind=0)
                    if fa == 0:
                        send_failed = True
        elif e == 1 or e == 2:
            x = p._pool[e - 1] if e - 1 < len(p._pool) else None
            if x is None or x.exitcode is not None:
                raise Prune()
            if x.state == 'idle':
                w.w_take(x)
            elif x.state == 'busy':
                w.w_done(x)
            else:
                raise Prune()
        elif e == 3:
            if not p._outqueue.q:
                raise Prune()
            try:
                w.drain_results()          # the result handler catches up (order of ACK/READY is C01's subject)
            except Propagated:
                pass                       # (the caller of handle_result_event sees it; the job is done all the same)
        elif e == 4 and mode == 'grow':
            if p._processes >= 4:
                raise Prune()
            p.grow(1)                   # one more slot and, at the next supervision pass, one more worker
        elif e == 5 and mode == 'grow':
            w.tick()                    # the supervisor starts the workers grow() asked for (nobody has exited)
        elif e == 4:
            if mode != 'fault':
                raise Prune()
            k = nd.draw(0, 1)
            if k >= len(p._pool) or p._pool[k].exitcode is not None:
                raise Prune()
            w.w_exit(p._pool[k], (-9, 0, 1)[nd.draw(0, 2)])
            any_exit = True
        elif e == 5:
            if mode != 'fault':
                raise Prune()
            w.adv(nd.draw(0, 1) * (LWT + 1))
            w.tick()
        else:
            if mode != 'map' or maps:
                raise Prune()
            maps.append(p.map_async(W.val, ['m0', 'm1'], chunksize=1))
            w.feed()
        if cb_fail:
            return fail(cb_fail[0])
        for j in jobs:
            if j[0].ready():
                j[1] = True
        v, b = sem._value, sem._initial_value
        if not (0 <= v <= b):
            return fail('C10:S1:value-outside-bound')
        if b != p._processes:
            return fail('C10:S1:bound-differs-from-pool-size')
        outstanding = sum(1 for j in jobs if not j[1])
        if not any_exit:
            if outstanding > b:
                return fail('C10:S2:more-in-flight-than-slots')
            if v != b - outstanding:
                return fail('C10:S2:not-conserved' + (':map-job-in-history' if maps else '') + (':failed-send' if send_failed else ''))
    # quiescence
    for _ in range(3):
        for x in list(p._pool):
            while x.exitcode is None and ((x.state == 'idle' and p._inqueue.q) or x.state == 'busy'):
                if x.state == 'idle':
                    w.w_take(x)
                else:
                    w.w_done(x)
        for _ in range(4):
            try:
                w.drain_results()
                break
            except Propagated:
                pass
        w.tick()
        w.adv(LWT + 1)
        w.tick()
    if cb_fail:
        return fail(cb_fail[0])
    if sem._value != sem._initial_value:
        return fail('C10:S3:slots-not-free-at-quiescence' + (':failed-send' if send_failed else ''))
    if sem._initial_value != p._processes:
        return fail('C10:S1:bound-differs-from-pool-size')
    return True


MODES = ('plain', 'fault', 'map', 'send', 'callback', 'grow')


def _run(code, want):
    # NPART = 4: the mode; every choice is a digit of one solver integer
    try:
        return _pool(NDCode(code), MODES[PART % len(MODES)], want)
    except Prune:
        return True


def h_pool(code: int) -> bool:
    """
    pre: 0 <= code < CODEMAX
    post: _
    """
    return _run(code, None)


def h_pool_twin(code: int) -> bool:
    """
    pre: 0 <= code < CODEMAX
    post: _
    """
    return _run(code, 'block')


# ---------------------------------------------------------------------------
# (c) E2: races between the threads that release slots (statement granularity outside the lock)

def sem_system(ops, value, bound):
    """threads performing one LaxBoundedSemaphore operation each, on a semaphore with the given value/bound"""
    from vlib import py2ts
    from vlib.py2ts import Asm, Obj
    from vlib.bmc import System
    lm, _ = py2ts.load_class_methods('billiard/pool.py', 'LaxBoundedSemaphore')
    env = {
        'self._cond': Obj('pycond', 'COND', lock='C'),
        'self._value': Obj('shared', 'V'),
        'self._initial_value': Obj('shared', 'B'),
        '_Semaphore.release': Obj('tsem_base_release', 'base', lock='C', var='V'),
    }
    threads = []
    for k, op in enumerate(ops):
        a = Asm()
        methods = {('self', name): (lm[name], dict(env), 's.') for name in ('release', 'grow')}
        c = py2ts.Compiler(a, dict(env), methods, prefix='t%d.' % k)
        rv = a.tmp('result')
        end = a.label('callend')
        c.ret_stack.append((rv, end))
        a.emit('set', rv, ('const', 0))
        c.block(lm[op].body)
        a.place(end)
        a.emit('ret', ('const', 0))
        threads.append(a.link())
    return System(threads, sems={}, locks={'C': 0}, shared={'V': value, 'B': bound})


def _sem_race(ops, value, bound, timeout_s=300):
    import z3
    from vlib import bmc
    from vlib.bmc import BVV
    sysm = sem_system(ops, value, bound)
    K = sum(sum(1 for i in p if i[0] in bmc.VISIBLE) for p in sysm.threads) + 2 * (bound - value + 1) * 4

    def over(states):
        return z3.Or(*[z3.UGT(st['sh']['V'], st['sh']['B']) for st in states])

    def err(states):
        return z3.Or(*[st['err'] for st in states])
    detail = []
    for name, bad in (('value-never-exceeds-bound', over), ('no-internal-error', err)):
        r = bmc.check_property(sysm, K, bad, (), timeout_s)
        detail.append({'property': name, 'status': r['status'], 'K': K, 'ops': ops})
        if r['status'] == 'violated':
            fin = r['final']
            return {'status': 'refuted', 'detail': detail, 'cex': {'args': [{'ops': ops, 'value': value, 'bound': bound, 'property': name,
                    'schedule': [s['thread'] for s in r['schedule']]}], 'kwargs': {}},
                    'solver_queries': bmc.STATS['queries'], 'solver_time_s': round(bmc.STATS['time'], 2)}
        if r['status'] != 'holds':
            return {'status': 'unknown', 'detail': detail, 'messages': [str(r.get('why') or r.get('result'))]}
    return {'status': 'confirmed', 'detail': detail, 'nontrivial_witness': True, 'solver_queries': bmc.STATS['queries'],
            'solver_time_s': round(bmc.STATS['time'], 2), 'states': bmc.STATS['states'], 'transitions': bmc.STATS['transitions']}


def _suppress(res, tag):
    """a listed known finding: report the scenario as explored, keep the evidence"""
    from harness import hbase
    if res['status'] == 'refuted' and tag in hbase.SUPPRESS:
        res = dict(res)
        res['status'] = 'confirmed'
        res['nontrivial_witness'] = True
        res['suppressed_known_finding'] = tag
        res.pop('cex', None)
    return res


def ob_release_release(tier):
    return _sem_race(['release', 'release'], 1, 2)


def ob_release_grow(tier):
    return _sem_race(['release', 'grow'], 1, 2)


def ob_release_clear(tier):
    return _suppress(_sem_race(['release', 'clear'], 1, 2), 'C10:race:clear-vs-release:value-above-bound')


def ob_clear_clear_release(tier):
    return _sem_race(['clear', 'clear', 'release'], 0, 2)


def replay_race(spec):
    """native replay of the release || clear race: clear() has tested value < bound, the other thread's release() lands,
    then clear() performs its unbounded increment (the schedule the solver found, driven through the real methods)"""
    import threading
    import billiard.pool as bp
    from harness import hbase
    s = bp.LaxBoundedSemaphore(spec['bound'])
    for _ in range(spec['bound'] - spec['value']):
        s.acquire()
    if sorted(spec['ops']) != ['clear', 'release']:
        hbase.trace('no native replay for', spec['ops'])
        return True
    orig = threading.Semaphore.release
    fired = []

    def racing_release(self, n=1):
        if not fired:
            fired.append(1)
            bp.LaxBoundedSemaphore.release(self)       # the result handler's release lands between clear()'s test and its increment
        return orig(self, n)
    threading.Semaphore.release = racing_release
    try:
        s.clear()
    finally:
        threading.Semaphore.release = orig
    hbase.trace('value', s._value, 'bound', s._initial_value)
    if s._value > s._initial_value:
        hbase.REPLAY['tag'] = 'C10:race:clear-vs-release:value-above-bound'
        return False
    return True


def h_replay_known_race() -> bool:
    """
    post: _
    """
    return replay_race({'ops': ['release', 'clear'], 'value': 1, 'bound': 2})


# ---------------------------------------------------------------------------
# (d) two threads, one of them inside a semaphore operation: the current source of shrink / grow / release is instrumented at
# statement level (a point before every statement, also inside `with` bodies); at a solver-chosen point at which the semaphore's lock
# is free the other thread performs one whole operation.  From ANY valid state (value = bound - held, solver-chosen), so histories of
# any length are covered as far as pairs of overlapping operations go.

import ast as _ast
import inspect as _inspect
import textwrap as _textwrap
import threading as _threading


class _SemInstr(_ast.NodeTransformer):
    def __init__(self):
        self.count = 0

    def _wrap(self, body):
        out = []
        for st in body:
            st = self.generic_visit(st)
            self.count += 1
            call = _ast.Expr(_ast.Call(_ast.Name('__vp_point__', _ast.Load()), [_ast.Name('self', _ast.Load())], []))
            out.append(_ast.copy_location(call, st))
            out.append(st)
        return out

    def generic_visit(self, node):
        for field in ('body', 'orelse', 'finalbody'):
            b = getattr(node, field, None)
            if isinstance(b, list) and b and isinstance(b[0], _ast.stmt):
                setattr(node, field, self._wrap(b))
        return node


_HOOK = [None]


def _instrumented(name):
    fn = getattr(bp.LaxBoundedSemaphore, name)
    tree = _ast.parse(_textwrap.dedent(_inspect.getsource(fn)))
    tr = _SemInstr()
    tree = tr.generic_visit(tree.body[0])
    mod = _ast.Module([tree], [])
    _ast.fix_missing_locations(mod)
    glb = dict(bp.__dict__)
    glb['__vp_point__'] = lambda obj: _HOOK[0](obj)
    ns = {}
    exec(compile(mod, '<instrumented LaxBoundedSemaphore.%s>' % name, 'exec'), glb, ns)
    return ns[name], tr.count


# regenerated from the current source at every import of this module (i.e. every run), outside the tracer
_INSTR = {name: _instrumented(name) for name in ('shrink', 'grow', 'release')}


class _VCond(_threading.Condition):
    def wait(self, timeout=None):
        raise W.WouldBlock()          # a single-threaded run cannot sleep: the scenario is outside the harness (pruned)


OPS1 = ('shrink', 'grow', 'release')
OPS2 = ('release', 'acquire', 'grow', 'shrink')


def _interleaved(v, b, held_extra, o1, o2, point, want):
    # valid state: value = bound - held; held slots are owned by users (jobs in flight)
    held = b - v
    s = W.VSemaphore(1)
    s._cond = _VCond(_threading.Lock())
    s._value = v
    s._initial_value = b
    exp_b = b
    state = {'n': 0, 'fired': False, 'blocked': False, 'surplus': False}

    def do(op, obj):
        nonlocal held, exp_b
        if op == 'release':
            # a user that holds a slot gives it back; with nothing held it is one of the pool's surplus releases (the supervisor
            # releases once per reaped worker whether or not it held a job), which the semaphore is there to absorb
            bp.LaxBoundedSemaphore.release(obj)
            if held >= 1:
                held -= 1
            else:
                state['surplus'] = True
        elif op == 'acquire':
            if obj.acquire(False):
                held += 1
        elif op == 'grow':
            bp.LaxBoundedSemaphore.grow(obj)
            exp_b += 1
        else:
            bp.LaxBoundedSemaphore.shrink(obj)
            exp_b -= 1

    def hook(obj):
        k = state['n']
        state['n'] += 1
        if k == point and not state['fired']:
            if obj._cond._lock.locked():
                raise Prune()             # the other thread would wait for the lock here: same as firing at the next free point
            state['fired'] = True
            do(OPS2[o2], obj)
    fn, npoints = _INSTR[OPS1[o1]]
    _HOOK[0] = hook
    if point >= npoints:
        raise Prune()
    if OPS1[o1] == 'release':
        if held >= 1:
            held -= 1
        else:
            state['surplus'] = True
    elif OPS1[o1] == 'grow':
        exp_b += 1
    else:
        exp_b -= 1
    try:
        fn(s)
    except W.WouldBlock:
        return True                       # an operation had to wait for a slot: outside this harness
    if not state['fired']:
        raise Prune()
    if want:
        return not (OPS1[o1] == 'shrink' and OPS2[o2] == 'release')
    if not (0 <= s._value <= s._initial_value):
        return fail('C10:overlap:value-outside-0..bound:%s-during-%s' % (OPS2[o2], OPS1[o1]))
    if s._initial_value != exp_b:
        return fail('C10:overlap:bound-differs-from-the-configured-size:%s-during-%s' % (OPS2[o2], OPS1[o1]))
    if s._value != s._initial_value - held and not state['surplus']:
        # (a surplus release can only be told from a real one while everything is free: with one in the history only the bound is
        # asserted)
        # a slot was lost (value too small: once everything is given back a slot stays taken) or invented (too large: more jobs
        # than the configured size can be in flight)
        return fail('C10:overlap:slots-not-conserved:%s-during-%s' % (OPS2[o2], OPS1[o1]))
    return True


def h_overlap(v: int, b: int, o1: int, o2: int, point: int) -> bool:
    """
    pre: 1 <= v <= b and b <= 1000 and 0 <= o1 <= 2 and 0 <= o2 <= 3 and 0 <= point <= 8
    post: _
    """
    from harness.hbase import pick
    try:
        return _interleaved(v, b, 0, pick(o1, 0, 2), pick(o2, 0, 3), pick(point, 0, 8), False)
    except Prune:
        return True


def h_overlap_twin(v: int, b: int, o1: int, o2: int, point: int) -> bool:
    """
    pre: 1 <= v <= b and b <= 1000 and 0 <= o1 <= 2 and 0 <= o2 <= 3 and 0 <= point <= 8
    post: _
    """
    from harness.hbase import pick
    try:
        return _interleaved(v, b, 0, pick(o1, 0, 2), pick(o2, 0, 3), pick(point, 0, 8), True)
    except Prune:
        return True

"""C16 - queues lose nothing, duplicate nothing and respect their capacity.

(a) E1: the real Queue._feed run to completion over a scripted buffer;
(b) E1: the real Queue.put / Queue.get timeout paths with symbolic clock and
    symbolic answers of the capacity semaphore, reader lock and poll;
(c) E2: JoinableQueue.put / task_done / join and Queue.get compiled from source
    and model-checked with producers, a feeder, a consumer and a joiner.
"""
import pickle
import threading
import time as _time
from typing import List

import billiard.queues as bq
from harness.hbase import fail, tier, Prune, realize

NITEMS = tier(3, 5)


class _Unpicklable:
    def __reduce__(self):
        raise TypeError('cannot pickle this object')


def h_feed(code: int) -> bool:
    """
    pre: 0 <= code < 10 ** 40
    post: _
    """
    from harness.hbase import NDCode
    try:
        nd = NDCode(code)
        n = nd.draw(0, NITEMS)
        sentinel_at = nd.draw(0, n)
        fault = nd.draw(0, 2)              # none / the pipe breaks at some send / one object cannot be pickled
        epipe_at = nd.draw(0, NITEMS) if fault == 1 else -1
        bad_at = nd.draw(0, NITEMS - 1) if fault == 2 else -1
    except Prune:
        return True
    return _feed_case(n, sentinel_at, epipe_at, bad_at)


def _feed_case(n, sentinel_at, epipe_at, bad_at):
    items = [('item', i) for i in range(n)]
    if 0 <= bad_at < sentinel_at:
        # one object that cannot be pickled was put among the others: it cannot be delivered, every other object still is
        return _feed_with_unpicklable(items, sentinel_at, bad_at)
    if bad_at >= 0:
        return True
    buf = bq.collections.deque(items[:sentinel_at] + [bq._sentinel] + items[sentinel_at:])
    notempty = threading.Condition(threading.Lock())
    sent = []
    state = {'locked': 0, 'bad': None, 'closed': 0}

    class WLock:
        def acquire(self):
            state['locked'] += 1

        def release(self):
            state['locked'] -= 1

    def send_bytes(b):
        if state['locked'] != 1:
            state['bad'] = 'send-outside-the-write-lock'
        if len(sent) == epipe_at:
            raise OSError(32, 'Broken pipe')
        sent.append(b)

    def close():
        state['closed'] += 1
    saved = (bq.error, bq.info, bq.debug, bq.is_exiting)
    bq.error = lambda *a, **k: True
    bq.info = bq.debug = lambda *a, **k: None
    bq.is_exiting = lambda: False
    try:
        bq.Queue._feed(buf, notempty, send_bytes, WLock(), close, False)
    finally:
        bq.error, bq.info, bq.debug, bq.is_exiting = saved
    if state['bad']:
        return fail('C16:feed:' + state['bad'])
    if state['locked'] != 0:
        return fail('C16:feed:write-lock-left-held')
    expect = [pickle.dumps(x) for x in items[:sentinel_at]]
    got = [bytes(b) for b in sent]
    if 0 <= epipe_at < sentinel_at:
        # the pipe broke: everything before the failure was sent once, in order; nothing after it
        if got != expect[:epipe_at]:
            return fail('C16:feed:order-or-duplication-before-a-broken-pipe')
        return True
    if got != expect:
        return fail('C16:feed:items-lost-duplicated-or-reordered')
    if state['closed'] != 1:
        return fail('C16:feed:sentinel-did-not-close-the-writer')
    return True


def _feed_with_unpicklable(items, sentinel_at, bad_at):
    import inspect
    objs = list(items[:sentinel_at])
    objs[bad_at] = _Unpicklable()
    buf = bq.collections.deque(objs + [bq._sentinel])
    notempty = threading.Condition(threading.Lock())
    sent = []
    state = {'closed': 0, 'released': 0}

    class WLock:
        def acquire(self):
            pass

        def release(self):
            pass

    class Sem:
        def release(self):
            state['released'] += 1

    def close():
        state['closed'] += 1
    saved = (bq.error, bq.info, bq.debug, bq.is_exiting)
    bq.error = lambda *a, **k: True
    bq.info = bq.debug = lambda *a, **k: None
    bq.is_exiting = lambda: False
    args = [buf, notempty, sent.append, WLock(), close, False]
    if len(inspect.signature(bq.Queue._feed).parameters) >= 7:
        args.append(Sem())
    try:
        bq.Queue._feed(*args)
    finally:
        bq.error, bq.info, bq.debug, bq.is_exiting = saved
    expect = [pickle.dumps(x) for k, x in enumerate(items[:sentinel_at]) if k != bad_at]
    if [bytes(b) for b in sent] != expect:
        return fail('C16:feed:objects-put-after-an-unpicklable-one-are-never-delivered' if len(sent) < len(expect) else 'C16:feed:items-lost-duplicated-or-reordered')
    if state['closed'] != 1:
        return fail('C16:feed:sentinel-did-not-close-the-writer')
    return True


class FakeSem:
    def __init__(self, answer):
        self.answer = answer
        self.acquires = []
        self.releases = 0

    def acquire(self, block=True, timeout=None):
        self.acquires.append((block, timeout))
        return self.answer

    def release(self):
        self.releases += 1


class FakeLock(FakeSem):
    def __enter__(self):
        self.acquires.append((True, None))
        return True

    def __exit__(self, *a):
        self.releases += 1


def _queue(sem, rlock, poll, clock):
    q = bq.Queue.__new__(bq.Queue)
    q._maxsize = 2
    q._sem = sem
    q._rlock = rlock
    q._closed = False
    q._notempty = threading.Condition(threading.Lock())
    q._buffer = bq.collections.deque()
    q._thread = object()            # the feeder thread exists already
    q._poll = poll
    q._recv_bytes = lambda: pickle.dumps(('item', 7))
    bq.monotonic = clock
    return q


def h_put(block: bool, timed: bool, granted: bool) -> bool:
    """
    post: _
    """
    sem = FakeSem(granted)
    q = _queue(sem, None, None, None)
    timeout = 5 if timed else None
    try:
        q.put(('item', 1), block, timeout)
        raised = False
    except bq.Full:
        raised = True
    if raised != (not granted):
        return fail('C16:put:Full-iff-no-capacity')
    if sem.acquires != [(block, timeout)]:
        return fail('C16:put:capacity-semaphore-arguments')
    if granted and list(q._buffer) != [('item', 1)]:
        return fail('C16:put:item-not-buffered')
    if not granted and q._buffer:
        return fail('C16:put:item-buffered-without-capacity')
    return True


def h_get(block: bool, timeout: int, t0: int, d1: int, lock_ok: bool, data: bool) -> bool:
    """
    pre: -1 <= timeout <= 20 and 1 <= t0 <= 1000 and 0 <= d1 <= 40
    post: _
    """
    # timeout == -1 stands for None
    tmo = None if timeout == -1 else timeout
    times = [t0, t0 + d1]
    calls = []

    def clock():
        calls.append(1)
        return times[min(len(calls) - 1, 1)]
    polls = []

    def poll(t=0.0):
        polls.append(t)
        return data
    sem = FakeSem(True)
    rlock = FakeLock(lock_ok)
    q = _queue(sem, rlock, poll, clock)
    try:
        got = q.get(block, tmo)
        empty = False
    except bq.Empty:
        empty = True
    if rlock.releases != (1 if (lock_ok or (block and tmo is None)) else 0):
        return fail('C16:get:reader-lock-not-released-exactly-when-taken')
    if block and tmo is None:
        if empty or got != ('item', 7) or sem.releases != 1:
            return fail('C16:get:blocking-get')
        return True
    if block:
        remaining = tmo - d1
        exp_empty = (not lock_ok) or remaining < 0 or not data
        if lock_ok and remaining >= 0 and polls != [remaining]:
            return fail('C16:get:poll-not-given-the-remaining-time')
    else:
        exp_empty = (not lock_ok) or not data
    if empty != exp_empty:
        return fail('C16:get:Empty-iff-nothing-arrived-within-the-timeout')
    if not empty and (got != ('item', 7) or sem.releases != 1):
        return fail('C16:get:item-or-capacity-release')
    if empty and sem.releases != 0:
        return fail('C16:get:capacity-released-without-an-item')
    return True


# ---------------------------------------------------------------------------
# (c) E2: JoinableQueue.put / task_done / join and Queue.get, compiled and model-checked

def jq_system(nprod, extra_done=False, cap=1, block=True, prefilled=0):
    import z3
    from vlib import py2ts, bmc
    from vlib.py2ts import Asm, Obj
    from vlib.bmc import BVV, System
    from harness.c17 import cond_env, compile_method_with
    qm, _ = py2ts.load_class_methods('billiard/queues.py', 'Queue')
    jm, _ = py2ts.load_class_methods('billiard/queues.py', 'JoinableQueue')
    cm, _ = py2ts.load_class_methods('billiard/synchronize.py', 'Condition')
    cenv = cond_env()
    methods = {('self._cond', n): (cm[n], cenv, 'c.') for n in ('wait', 'notify', 'notify_all')}
    methods_late = True
    env = {
        'self._closed': Obj('const', 'closed', value=0),
        'self._thread': Obj('const', 'thread', value=1),            # the feeder thread exists (not None)
        'self._sem': Obj('sem', 'Q'),
        'self._notempty': Obj('pycond', 'NE', lock='N'),
        'self._cond': Obj('cond', 'C', lock='L'),
        'self._buffer': Obj('buffer', 'B'),
        'self._unfinished_tasks': Obj('sem', 'U'),
        'self._rlock': Obj('lock', 'R'),
        'self._recv_bytes': Obj('pipe_recv', 'PIPE'),
    }
    methods[('Queue', 'put')] = (qm['put'], env, 'qp.')          # a subclass calling Queue.put(self, ...) explicitly
    ghosts = {'puts': 0, 'dones': 0, 'puts_before': 0, 'join_ok': 0}
    threads = []
    roles = []

    def comp(fn, prefix, consts):
        a = Asm()
        c = py2ts.Compiler(a, env, methods, prefix=prefix, consts=consts)
        rv = a.tmp('result')
        end = a.label('callend')
        c.ret_stack.append((rv, end))
        a.emit('set', rv, ('const', 0))
        c.block(fn.body)
        a.place(end)
        return a, rv
    for i in range(nprod):
        a, rv = comp(jm['put'], 'p%d.' % i, {'block': block, 'timeout': None, 'obj': 0})
        a.emit('ret', ('loc', rv))
        prog = a.link()
        for k, ins in enumerate(prog):
            if ins[0] == 'sem_rel' and ins[1] == 'U':
                prog[k] = tuple(ins) + ({'puts': (lambda v: v['gh']['puts'] + BVV(1))},)
        threads.append(prog)
        roles.append('producer')
    # the feeder thread (its real code is obligation (a)): buffer -> pipe, one item at a time
    a = Asm()
    for _ in range(nprod):
        a.emit('sem_acq', 'B', True, False, a.tmp('item'))
        a.emit('sem_rel', 'PIPE')
    a.emit('ret', ('const', 0))
    threads.append(a.link())
    roles.append('feeder')
    # the consumer: get() then task_done() per item (plus one task_done too many in the over-count scenario)
    a = Asm()
    last = None
    nget = prefilled if prefilled else nprod          # prefilled scenario: the consumer takes and finishes the item that was already there
    for k in range(nget):
        c = py2ts.Compiler(a, env, methods, prefix='g%d.' % k, consts={'block': True, 'timeout': None})
        rv = a.tmp('got')
        end = a.label('getend')
        c.ret_stack.append((rv, end))
        a.emit('set', rv, ('const', 0))
        c.block(qm['get'].body)
        a.place(end)
    ndone = nget + (1 if extra_done else 0)
    for k in range(ndone):
        c = py2ts.Compiler(a, env, methods, prefix='d%d.' % k)
        last = a.tmp('done')
        end = a.label('doneend')
        c.ret_stack.append((last, end))
        a.emit('set', last, ('const', 0))
        c.block(jm['task_done'].body)
        a.place(end)
    a.emit('ret', ('loc', last))
    prog = a.link()
    for k, ins in enumerate(prog):
        if ins[0] == 'sem_acq' and ins[1] == 'U':
            dst = ins[4]
            prog[k] = tuple(ins) + ({'dones': (lambda v, dst=dst: v['gh']['dones'] + v['loc'][dst])},)
    threads.append(prog)
    roles.append('consumer')
    # the joiner
    a, rv = comp(jm['join'], 'j.', {})
    a.emit('ret', ('loc', rv))
    prog = a.link()
    first = [k for k, ins in enumerate(prog) if ins[0] == 'lock_acq' and ins[1] == 'L'][0]
    prog[first] = tuple(prog[first]) + ({'puts_before': (lambda v: v['gh']['puts'])},)
    lastrel = [k for k, ins in enumerate(prog) if ins[0] == 'lock_rel' and ins[1] == 'L'][-1]
    prog[lastrel] = tuple(prog[lastrel]) + ({'join_ok': (lambda v: z3.If(z3.UGE(v['gh']['dones'], v['gh']['puts_before']), BVV(1), BVV(0)))},)
    threads.append(prog)
    roles.append('joiner')
    if prefilled:
        ghosts['puts'] = prefilled
    sysm = System(threads, sems={'Q': cap - prefilled, 'B': 0, 'PIPE': prefilled, 'U': prefilled, 'S': 0, 'W': 0, 'X': 0}, locks={'N': 0, 'L': 0, 'R': 0}, ghosts=ghosts)
    return sysm, roles, cap


def jq_properties(sysm, roles, cap, extra_done):
    import z3
    from vlib.bmc import BVV
    from vlib.py2ts import RAISED
    n = len(roles)
    cons = roles.index('consumer')
    join = roles.index('joiner')

    def capacity(states):
        return z3.Or(*[z3.Or(z3.UGT(st['sem']['B'] + st['sem']['PIPE'], BVV(cap)), z3.UGT(st['sem']['Q'], BVV(cap))) for st in states])

    def no_error(states):
        return z3.Or(*[st['err'] for st in states])

    def join_exact(states):
        fin = states[-1]
        return z3.And(sysm.ended(fin, join), fin['gh']['join_ok'] != BVV(1))

    def liveness(states):
        fin = states[-1]
        if extra_done:
            return z3.Not(z3.And(*[sysm.ended(fin, i) for i in range(n) if i != join]))
        return z3.Not(z3.And(*[sysm.ended(fin, i) for i in range(n)]))

    def overcount(states):
        fin = states[-1]
        return z3.And(sysm.ended(fin, cons), fin['loc'][cons]['$ret'] != BVV(RAISED))

    def conservation(states):
        fin = states[-1]
        return z3.And(*[sysm.ended(fin, i) for i in range(n) if i != join] + [z3.Or(fin['sem']['Q'] != BVV(cap), fin['sem']['B'] != BVV(0), fin['sem']['PIPE'] != BVV(0),
                                                                                    fin['sem']['U'] != BVV(0))])
    props = {'Q1-never-more-than-maxsize-items-waiting': capacity, 'Q5-no-assertion-of-the-real-code-fails': no_error,
             'Q2-join-returns-only-after-every-earlier-put-was-matched-by-task_done': join_exact, 'Q3-everybody-finishes': liveness,
             'Q6-capacity-and-counters-restored': conservation}
    if extra_done:
        props = {'Q4-task_done-beyond-the-count-raises': overcount, 'Q5-no-assertion-of-the-real-code-fails': no_error, 'Q3-everybody-else-finishes': liveness}
    return props


def _jq(nprod, extra_done, timeout_s):
    import z3
    from vlib import bmc
    from vlib.bmc import BVV
    sysm, roles, cap = jq_system(nprod, extra_done)
    props = jq_properties(sysm, roles, cap, extra_done)
    K = 9 * nprod + 2 * nprod + nprod * 5 + (nprod + (1 if extra_done else 0)) * (4 + 9) + 12 + 2
    detail = []
    for name, bad in props.items():
        r = bmc.check_property(sysm, K, bad, (), timeout_s)
        detail.append({'property': name, 'status': r['status'], 'K': K, 'unwinding': r.get('unwinding'), 'why': r.get('why')})
        if r['status'] == 'violated':
            return {'status': 'refuted', 'detail': detail, 'cex': {'args': [{'scenario': 'jq', 'nprod': nprod, 'extra_done': extra_done, 'property': name,
                    'schedule': r['schedule'], 'final': r['final'], 'lengths': [len(p) for p in sysm.threads], 'roles': roles}], 'kwargs': {}},
                    'solver_queries': bmc.STATS['queries'], 'solver_time_s': round(bmc.STATS['time'], 2)}
        if r['status'] != 'holds':
            return {'status': 'unknown', 'detail': detail, 'messages': [str(r.get('why') or r.get('result'))],
                    'solver_queries': bmc.STATS['queries'], 'solver_time_s': round(bmc.STATS['time'], 2)}
    join = roles.index('joiner')

    def witness(states):
        fin = states[-1]
        # a run in which join() really had to wait (it was notified by the last task_done)
        return z3.And(sysm.ended(fin, join), fin['gh']['puts_before'] != BVV(0)) if not extra_done else z3.And(sysm.ended(fin, roles.index('consumer')))
    w = bmc.check_property(sysm, K, witness, (), timeout_s)
    ok = w['status'] == 'violated'
    detail.append({'property': 'reachability-witness', 'status': 'sat' if ok else w['status']})
    validated = 0
    if ok:
        # model vs implementation: the witness run is replayed step by step on the real JoinableQueue in real threads
        spec = {'scenario': 'jq', 'nprod': nprod, 'extra_done': extra_done, 'property': 'conformance-witness', 'schedule': w['schedule'],
                'final': w['final'], 'lengths': [len(p) for p in sysm.threads], 'roles': roles}
        if replay_jq(spec) is not False:
            return {'status': 'error', 'detail': detail, 'messages': ['model and implementation diverge on a witness run of the queue scenario']}
        validated = 1
        detail.append({'property': 'witness-replayed-on-the-real-classes', 'status': 'conforms'})
    return {'status': 'confirmed' if ok else 'unknown', 'detail': detail, 'nontrivial_witness': ok, 'traces_validated': validated,
            'solver_queries': bmc.STATS['queries'], 'solver_time_s': round(bmc.STATS['time'], 2),
            'states': bmc.STATS['states'], 'transitions': bmc.STATS['transitions'],
            'samples': [{'scenario': 'JoinableQueue: %d producer(s) || feeder || consumer || joiner' % nprod, 'K': K}]}


def _jq_full(timeout_s):
    """a full queue (capacity 1, one counted item waiting in the pipe): a producer's non-blocking put races with the consumer that takes
    and finishes the waiting item.  If the put is refused (Full) it must leave no trace: once the consumer is done the unfinished count is
    zero and join() returns; if it is accepted the capacity is never exceeded."""
    import z3
    from vlib import bmc
    from vlib.bmc import BVV
    from vlib.py2ts import RAISED
    sysm, roles, cap = jq_system(1, False, cap=1, block=False, prefilled=1)
    prod, cons, join = roles.index('producer'), roles.index('consumer'), roles.index('joiner')
    K = 9 + 2 + 5 + (4 + 9) + 12 + 6

    def refused(fin):
        return z3.And(sysm.ended(fin, prod), fin['loc'][prod]['$ret'] == BVV(RAISED), sysm.ended(fin, cons))

    def stuck(states):
        fin = states[-1]
        return z3.And(refused(fin), z3.Not(sysm.ended(fin, join)))

    def counted(states):
        fin = states[-1]
        return z3.And(refused(fin), fin['sem']['U'] != BVV(0))

    def capacity(states):
        return z3.Or(*[z3.Or(z3.UGT(st['sem']['B'] + st['sem']['PIPE'], BVV(cap)), z3.UGT(st['sem']['Q'], BVV(cap))) for st in states])

    def no_error(states):
        return z3.Or(*[st['err'] for st in states])
    props = {'Q9-a-refused-put-leaves-no-unfinished-task': counted, 'Q2-join-returns-once-every-accepted-item-was-matched:refused-put': stuck,
             'Q1-never-more-than-maxsize-items-waiting': capacity, 'Q5-no-assertion-of-the-real-code-fails': no_error}
    detail = []
    for name, bad in props.items():
        r = bmc.check_property(sysm, K, bad, (), timeout_s)
        detail.append({'property': name, 'status': r['status'], 'K': K, 'unwinding': r.get('unwinding'), 'why': r.get('why')})
        if r['status'] == 'violated':
            return {'status': 'refuted', 'detail': detail, 'cex': {'args': [{'scenario': 'jq-full', 'nprod': 1, 'extra_done': False, 'property': name,
                    'schedule': r['schedule'], 'final': r['final'], 'lengths': [len(p) for p in sysm.threads], 'roles': roles}], 'kwargs': {}},
                    'solver_queries': bmc.STATS['queries'], 'solver_time_s': round(bmc.STATS['time'], 2)}
        if r['status'] != 'holds':
            return {'status': 'unknown', 'detail': detail, 'messages': [str(r.get('why') or r.get('result'))],
                    'solver_queries': bmc.STATS['queries'], 'solver_time_s': round(bmc.STATS['time'], 2)}

    def witness(states):
        fin = states[-1]
        return z3.And(refused(fin), sysm.ended(fin, join))
    w = bmc.check_property(sysm, K, witness, (), timeout_s)
    ok = w['status'] == 'violated'
    detail.append({'property': 'reachability-witness (a refused put, join returned)', 'status': 'sat' if ok else w['status']})
    return {'status': 'confirmed' if ok else 'unknown', 'detail': detail, 'nontrivial_witness': ok,
            'solver_queries': bmc.STATS['queries'], 'solver_time_s': round(bmc.STATS['time'], 2),
            'states': bmc.STATS['states'], 'transitions': bmc.STATS['transitions'],
            'samples': [{'scenario': 'JoinableQueue full: non-blocking put || feeder || consumer || joiner', 'K': K}]}


def ob_jq_full(tier):
    return _jq_full(900)


def ob_jq_1(tier):
    return _jq(1, False, 900)


def ob_jq_1_overcount(tier):
    return _jq(1, True, 900)


def ob_jq_2(tier):
    return _jq(2, False, 3000)


def replay_jq(spec):
    """native replay: the real JoinableQueue (put / get / task_done / join, with the real Condition inside) in real threads
    over gated stand-in semaphores and locks; the run must follow the model's schedule step by step (semaphore values
    are compared after every step) and end as the model says"""
    import threading
    import billiard.synchronize as bs
    from harness import hbase
    from harness.c17 import Gate, GSem, GLock, Blocked
    if spec.get('scenario') == 'feeder':
        return replay_feeder(spec)
    if spec.get('scenario') == 'simplequeue':
        return replay_sq(spec)
    gate = Gate(spec['schedule'])
    full = spec.get('scenario') == 'jq-full'          # capacity 1, one counted item already waiting in the pipe; the put is non-blocking
    pre = 1 if full else 0
    sems = {n: GSem(gate, n, v) for n, v in (('Q', 1 - pre), ('B', 0), ('PIPE', pre), ('U', pre), ('S', 0), ('W', 0), ('X', 0))}
    lockN, lockL, lockR = GLock(gate), GLock(gate), GLock(gate)
    cond = bs.Condition.__new__(bs.Condition)
    cond.__setstate__((lockL, sems['S'], sems['W'], sems['X']))

    class Buffer:
        def append(self, obj):
            sems['B'].release()

    class NotEmpty:
        def __enter__(self):
            return lockN.acquire()

        def __exit__(self, *a):
            lockN.release()

        def notify(self):
            pass
    q = bq.JoinableQueue.__new__(bq.JoinableQueue)
    q._maxsize = 1
    q._sem = sems['Q']
    q._rlock = lockR
    q._closed = False
    q._notempty = NotEmpty()
    q._buffer = Buffer()
    q._thread = object()
    q._cond = cond
    q._unfinished_tasks = sems['U']
    q._recv_bytes = lambda: (sems['PIPE'].acquire(), pickle.dumps(0))[1]
    nprod = spec['nprod']
    ndone = nprod + (1 if spec['extra_done'] else 0)
    def nb_put():
        try:
            q.put(0, False)
        except bq.Full:
            return 63
        return 0
    bodies = [nb_put if full else (lambda: q.put(0) or 0) for _ in range(nprod)]
    nget = pre if full else nprod
    if full:
        ndone = nget

    def feeder():
        for _ in range(nprod):
            sems['B'].acquire()
            sems['PIPE'].release()
        return 0

    def consumer():
        for _ in range(nget):
            q.get()
        r = 0
        for _ in range(ndone):
            try:
                q.task_done()
            except ValueError:
                r = 63
        return r
    bodies += [feeder, consumer, (lambda: q.join() or 0)]
    results, errors = {}, {}

    def run(i, body):
        gate.tids[threading.get_ident()] = i
        try:
            results[i] = body()
        except Blocked:
            results[i] = 'blocked'
        except AssertionError as e:
            errors[i] = str(e)
            results[i] = 'assert'
    threads = [threading.Thread(target=run, args=(i, b), daemon=True) for i, b in enumerate(bodies)]
    for t in threads:
        t.start()
    for t in threads:
        t.join(30)
    hbase.trace('native results', results, 'errors', errors, 'diverged', gate.diverged, 'steps', gate.pos, 'of', len(gate.steps))
    if gate.diverged:
        hbase.trace('NOT REPRODUCED: model and implementation diverge:', gate.diverged)
        return True
    fin = spec['final']
    for i, (pc, ln) in enumerate(zip(fin['pcs'], spec['lengths'])):
        ended = pc == ln - 1
        native_ended = results.get(i) not in ('blocked', 'assert', None)
        if ended != native_ended:
            hbase.trace('NOT REPRODUCED: thread %d ended=%s in the model, result %r natively' % (i, ended, results.get(i)))
            return True
    hbase.REPLAY['tag'] = 'C16:' + str(spec.get('property'))
    return False


# ---------------------------------------------------------------------------
# (d) E2: two threads of one process racing on the queue's first put: exactly one feeder thread is started and neither
#     item is dropped (the start of the feeder and the append are one critical section of Queue.put)

def _path_or_none(n):
    from vlib import py2ts
    try:
        return py2ts.attr_path(n)
    except py2ts.Unsupported:
        return ''


def _sliced_start_thread():
    """Queue._start_thread reduced to its effects on the objects of the scenario, regenerated from the current source:
    statements on self._buffer are kept, the assignment to self._thread becomes `self._thread = 1`; any other statement must not
    mention the scenario's objects (it is thread set-up, logging and finalizer registration) and is dropped."""
    import ast
    from vlib import py2ts
    qm, _ = py2ts.load_class_methods('billiard/queues.py', 'Queue')
    fn = qm['_start_thread']
    keep = []
    assigned = 0
    for st in fn.body:
        if isinstance(st, ast.Assign) and len(st.targets) == 1 and isinstance(st.targets[0], ast.Attribute) \
                and py2ts.attr_path(st.targets[0]) == 'self._thread':
            keep.append(ast.Assign(targets=st.targets, value=ast.Constant(value=1), lineno=st.lineno))
            assigned += 1
        elif isinstance(st, ast.Expr) and isinstance(st.value, ast.Call) and py2ts.attr_path(st.value.func).startswith('self._buffer.'):
            keep.append(st)
        elif any(isinstance(n, ast.Call) and isinstance(n.func, ast.Attribute) and _path_or_none(n.func).startswith(q + '.')
                 for n in ast.walk(st) for q in ('self._sem', 'self._notempty', 'self._buffer')) \
                or any(isinstance(n, ast.Attribute) and isinstance(n.ctx, ast.Store) and _path_or_none(n) in ('self._thread', 'self._sem', 'self._notempty', 'self._buffer')
                       for n in ast.walk(st)):
            # (handing the objects on as arguments - to the feeder thread, to a finalizer - is not an operation on them)
            raise py2ts.Unsupported('Queue._start_thread: statement at line %d touches the scenario objects in a way the slice does not know' % st.lineno)
    if assigned != 1:
        raise py2ts.Unsupported('Queue._start_thread assigns self._thread %d times' % assigned)
    new = ast.FunctionDef(name='_start_thread', args=fn.args, body=keep, decorator_list=[], lineno=fn.lineno)
    return ast.fix_missing_locations(new)


def feeder_system():
    from vlib import py2ts
    from vlib.py2ts import Asm, Obj
    from vlib.bmc import BVV, System
    qm, _ = py2ts.load_class_methods('billiard/queues.py', 'Queue')
    env = {
        'self._closed': Obj('const', 'closed', value=0),
        'self._thread': Obj('shared', 'T'),
        'self._sem': Obj('sem', 'Q'),
        'self._notempty': Obj('pycond', 'NE', lock='N'),
        'self._buffer': Obj('buffer', 'B'),
    }
    methods = {('self', '_start_thread'): (_sliced_start_thread(), env, 'st.')}
    threads = []
    for i in range(2):
        a = Asm()
        c = py2ts.Compiler(a, env, methods, prefix='p%d.' % i, consts={'block': True, 'timeout': None, 'obj': 0})
        rv = a.tmp('result')
        end = a.label('callend')
        c.ret_stack.append((rv, end))
        a.emit('set', rv, ('const', 0))
        c.block(qm['put'].body)
        a.place(end)
        a.emit('ret', ('loc', rv))
        prog = a.link()
        for k, ins in enumerate(prog):
            if ins[0] == 'sh_write' and ins[1] == 'T':
                prog[k] = tuple(ins) + ({'starts': (lambda v: v['gh']['starts'] + BVV(1))},)
        threads.append(prog)
    return System(threads, sems={'Q': 2, 'B': 0}, locks={'N': 0}, shared={'T': 0}, ghosts={'starts': 0})


def ob_q_feeder(tier):
    import z3
    from vlib import bmc
    from vlib.bmc import BVV
    sysm = feeder_system()
    K = sum(sum(1 for ins in p if ins[0] in bmc.VISIBLE) for p in sysm.threads) + 2

    def one_feeder(states):
        return z3.Or(*[z3.UGT(st['gh']['starts'], BVV(1)) for st in states])

    def nothing_dropped(states):
        fin = states[-1]
        return z3.And(sysm.ended(fin, 0), sysm.ended(fin, 1), fin['sem']['B'] != BVV(2))

    def no_error(states):
        return z3.Or(*[st['err'] for st in states])

    def finish(states):
        fin = states[-1]
        return z3.Not(z3.And(sysm.ended(fin, 0), sysm.ended(fin, 1)))
    props = {'Q7-one-feeder-thread-per-queue': one_feeder, 'Q8-no-item-dropped-by-a-second-start': nothing_dropped,
             'Q5-no-assertion-of-the-real-code-fails': no_error, 'Q3-everybody-finishes': finish}
    detail = []
    base = {'scenario': 'feeder', 'lengths': [len(p) for p in sysm.threads]}
    for name, bad in props.items():
        r = bmc.check_property(sysm, K, bad, (), 300)
        detail.append({'property': name, 'status': r['status'], 'K': K, 'unwinding': r.get('unwinding'), 'why': r.get('why')})
        if r['status'] == 'violated':
            return {'status': 'refuted', 'detail': detail, 'cex': {'args': [dict(base, property=name, schedule=r['schedule'], final=r['final'])], 'kwargs': {}},
                    'solver_queries': bmc.STATS['queries'], 'solver_time_s': round(bmc.STATS['time'], 2)}
        if r['status'] != 'holds':
            return {'status': 'unknown', 'detail': detail, 'messages': [str(r.get('why') or r.get('result'))],
                    'solver_queries': bmc.STATS['queries'], 'solver_time_s': round(bmc.STATS['time'], 2)}

    def witness(states):
        fin = states[-1]
        return z3.And(sysm.ended(fin, 0), sysm.ended(fin, 1), fin['gh']['starts'] == BVV(1), fin['sem']['B'] == BVV(2))
    w = bmc.check_property(sysm, K, witness, (), 300)
    ok = w['status'] == 'violated'
    detail.append({'property': 'reachability-witness', 'status': 'sat' if ok else w['status']})
    validated = 0
    if ok:
        if replay_feeder(dict(base, property='conformance-witness', schedule=w['schedule'], final=w['final'])) is not False:
            return {'status': 'error', 'detail': detail, 'messages': ['model and implementation diverge on a witness run of the first-put scenario']}
        validated = 1
        detail.append({'property': 'witness-replayed-on-the-real-classes', 'status': 'conforms'})
    return {'status': 'confirmed' if ok else 'unknown', 'detail': detail, 'nontrivial_witness': ok, 'traces_validated': validated,
            'solver_queries': bmc.STATS['queries'], 'solver_time_s': round(bmc.STATS['time'], 2),
            'states': bmc.STATS['states'], 'transitions': bmc.STATS['transitions'],
            'samples': [{'scenario': 'Queue: two threads racing on the first put', 'K': K}]}


def replay_feeder(spec):
    """native replay: the real Queue.put in two real threads over gated stand-ins; reads and writes of _thread are gated steps"""
    import threading
    from harness import hbase
    from harness.c17 import Gate, GSem, GLock, Blocked
    gate = Gate(spec['schedule'])
    sems = {'Q': GSem(gate, 'Q', 2), 'B': GSem(gate, 'B', 0)}
    lockN = GLock(gate)
    state = {'thread': None, 'starts': 0}

    class Buffer:
        def append(self, obj):
            sems['B'].release()

        def clear(self):
            def fn(step):
                sems['B'].value = 0
            gate.op(fn)

    class NotEmpty:
        def __enter__(self):
            return lockN.acquire()

        def __exit__(self, *a):
            lockN.release()

        def notify(self):
            pass

    class GQ(bq.Queue):
        def _get(self):
            return gate.op(lambda step: state['thread'])

        def _set(self, v):
            def fn(step):
                state['thread'] = v
                state['starts'] += 1
            gate.op(fn)
        _thread = property(_get, _set)

        def _start_thread(self):
            # the same slice as in the model: the buffer is cleared, the thread attribute assigned
            self._buffer.clear()
            self._thread = object()
    q = GQ.__new__(GQ)
    q._maxsize = 2
    q._sem = sems['Q']
    q._closed = False
    q._notempty = NotEmpty()
    q._buffer = Buffer()
    results = {}

    def run(i):
        gate.tids[threading.get_ident()] = i
        try:
            results[i] = q.put(i) or 0
        except Blocked:
            results[i] = 'blocked'
        except AssertionError as e:
            results[i] = 'assert'
    threads = [threading.Thread(target=run, args=(i,), daemon=True) for i in range(2)]
    for t in threads:
        t.start()
    for t in threads:
        t.join(30)
    hbase.trace('native results', results, 'starts', state['starts'], 'buffer', sems['B'].value, 'diverged', gate.diverged)
    if gate.diverged:
        hbase.trace('NOT REPRODUCED: model and implementation diverge:', gate.diverged)
        return True
    fin = spec['final']
    for i, (pc, ln) in enumerate(zip(fin['pcs'], spec['lengths'])):
        if (pc == ln - 1) != (results.get(i) not in ('blocked', 'assert', None)):
            hbase.trace('NOT REPRODUCED: thread %d' % i)
            return True
    if spec.get('property') == 'conformance-witness':
        return False if (state['starts'] == 1 and sems['B'].value == 2) else True
    if state['starts'] <= 1 and sems['B'].value == 2:
        hbase.trace('NOT REPRODUCED: natively one feeder start and both items buffered')
        return True
    hbase.REPLAY['tag'] = 'C16:' + str(spec.get('property'))
    return False


# ---------------------------------------------------------------------------
# (e) E2: SimpleQueue - "really just a locked pipe": put/get of several threads/processes never interleave inside a message

def sq_system(nprod=2, ncons=2):
    from vlib import py2ts
    from vlib.py2ts import Asm, Obj
    from vlib.bmc import System
    base, _ = py2ts.load_class_methods('billiard/queues.py', '_SimpleQueue')
    sub, _ = py2ts.load_class_methods('billiard/queues.py', 'SimpleQueue')
    meth = dict(base)
    meth.update(sub)                     # SimpleQueue overrides get_payload / send_payload
    env = {
        'self._rlock': Obj('lock', 'RL'),
        'self._wlock': Obj('lock', 'WL'),
        'self._writer.send_bytes': Obj('pipe_send_framed', 'PIPE', frame='WFRAME'),
        'self._reader.recv_bytes': Obj('pipe_recv_framed', 'PIPE', frame='RFRAME'),
    }
    methods = {('self', n): (meth[n], env, n + '.') for n in ('get_payload', 'send_payload')}
    threads = []
    for i in range(nprod + ncons):
        fn = meth['put'] if i < nprod else meth['get']
        a = Asm()
        c = py2ts.Compiler(a, env, methods, prefix='t%d.' % i, consts={'obj': 0})
        rv = a.tmp('result')
        end = a.label('callend')
        c.ret_stack.append((rv, end))
        a.emit('set', rv, ('const', 0))
        c.block(fn.body)
        a.place(end)
        a.emit('ret', ('loc', rv))
        threads.append(a.link())
    return System(threads, sems={'PIPE': 0, 'WFRAME': 1, 'RFRAME': 1}, locks={'RL': 0, 'WL': 0})


def ob_simplequeue(tier):
    import z3
    from vlib import bmc
    from vlib.bmc import BVV
    nprod = ncons = 2
    sysm = sq_system(nprod, ncons)
    n = nprod + ncons
    K = sum(sum(1 for ins in p if ins[0] in bmc.VISIBLE) for p in sysm.threads) + 2

    def framing(states):
        return z3.Or(*[st['err'] for st in states])

    def finish(states):
        fin = states[-1]
        return z3.Not(z3.And(*[sysm.ended(fin, i) for i in range(n)]))

    def conservation(states):
        fin = states[-1]
        return z3.And(*[sysm.ended(fin, i) for i in range(n)] + [z3.Or(fin['sem']['PIPE'] != BVV(0), fin['sem']['WFRAME'] != BVV(1), fin['sem']['RFRAME'] != BVV(1))])
    props = {'S1-no-writer-or-reader-inside-another-one-s-message': framing, 'S2-everybody-finishes': finish,
             'S3-every-message-put-is-taken-exactly-once': conservation}
    base = {'scenario': 'simplequeue', 'nprod': nprod, 'ncons': ncons, 'lengths': [len(p) for p in sysm.threads]}
    detail = []
    for name, bad in props.items():
        r = bmc.check_property(sysm, K, bad, (), 600)
        detail.append({'property': name, 'status': r['status'], 'K': K, 'unwinding': r.get('unwinding'), 'why': r.get('why')})
        if r['status'] == 'violated':
            return {'status': 'refuted', 'detail': detail, 'cex': {'args': [dict(base, property=name, schedule=r['schedule'], final=r['final'])], 'kwargs': {}},
                    'solver_queries': bmc.STATS['queries'], 'solver_time_s': round(bmc.STATS['time'], 2)}
        if r['status'] != 'holds':
            return {'status': 'unknown', 'detail': detail, 'messages': [str(r.get('why') or r.get('result'))],
                    'solver_queries': bmc.STATS['queries'], 'solver_time_s': round(bmc.STATS['time'], 2)}

    def witness(states):
        fin = states[-1]
        # a run in which a consumer had to wait for its message (it took the read lock before anything was in the pipe)
        return z3.And(*[sysm.ended(fin, i) for i in range(n)])
    w = bmc.check_property(sysm, K, witness, (), 600)
    ok = w['status'] == 'violated'
    detail.append({'property': 'reachability-witness', 'status': 'sat' if ok else w['status']})
    validated = 0
    if ok:
        if replay_sq(dict(base, property='conformance-witness', schedule=w['schedule'], final=w['final'])) is not False:
            return {'status': 'error', 'detail': detail, 'messages': ['model and implementation diverge on a witness run of the SimpleQueue scenario']}
        validated = 1
        detail.append({'property': 'witness-replayed-on-the-real-classes', 'status': 'conforms'})
    return {'status': 'confirmed' if ok else 'unknown', 'detail': detail, 'nontrivial_witness': ok, 'traces_validated': validated,
            'solver_queries': bmc.STATS['queries'], 'solver_time_s': round(bmc.STATS['time'], 2),
            'states': bmc.STATS['states'], 'transitions': bmc.STATS['transitions'],
            'samples': [{'scenario': 'SimpleQueue: 2 producers || 2 consumers', 'K': K}]}


def replay_sq(spec):
    """native replay: the real SimpleQueue.put/get in real threads; the pipe ends are stand-ins whose header and body
    transfers are gated steps, the locks gated stand-in locks"""
    import threading
    from harness import hbase
    from harness.c17 import Gate, GSem, GLock, Blocked
    gate = Gate(spec['schedule'])
    sems = {'PIPE': GSem(gate, 'PIPE', 0), 'WFRAME': GSem(gate, 'WFRAME', 1), 'RFRAME': GSem(gate, 'RFRAME', 1)}

    class Writer:
        def send_bytes(self, data):
            if not sems['WFRAME'].acquire(False):
                raise AssertionError('another writer is in the middle of a message')
            sems['WFRAME'].release()
            sems['PIPE'].release()

    class Reader:
        def recv_bytes(self):
            if not sems['RFRAME'].acquire(False):
                raise AssertionError('another reader is in the middle of a message')
            sems['PIPE'].acquire()
            sems['RFRAME'].release()
            return pickle.dumps(0)
    q = bq.SimpleQueue.__new__(bq.SimpleQueue)
    q._reader, q._writer = Reader(), Writer()
    q._rlock, q._wlock = GLock(gate), GLock(gate)
    q._poll = lambda *a: True
    nprod, ncons = spec['nprod'], spec['ncons']
    bodies = [(lambda: q.put(0) or 0) for _ in range(nprod)] + [(lambda: q.get() or 0) for _ in range(ncons)]
    results, errors = {}, {}

    def run(i, body):
        gate.tids[threading.get_ident()] = i
        try:
            results[i] = body()
        except Blocked:
            results[i] = 'blocked'
        except AssertionError as e:
            errors[i] = str(e)
            results[i] = 'assert'
    threads = [threading.Thread(target=run, args=(i, b), daemon=True) for i, b in enumerate(bodies)]
    for t in threads:
        t.start()
    for t in threads:
        t.join(30)
    hbase.trace('native results', results, 'errors', errors, 'diverged', gate.diverged, 'steps', gate.pos, 'of', len(gate.steps))
    if gate.diverged and not errors:
        hbase.trace('NOT REPRODUCED: model and implementation diverge:', gate.diverged)
        return True
    if spec.get('property') == 'conformance-witness':
        return False if (not errors and all(results.get(i) == 0 for i in range(nprod + ncons))) else True
    if spec.get('property', '').startswith('S1'):
        if not errors:
            hbase.trace('NOT REPRODUCED: no interleaved message natively')
            return True
    elif all(results.get(i) == 0 for i in range(nprod + ncons)) and sems['PIPE'].value == 0:
        hbase.trace('NOT REPRODUCED: natively everybody finished and the pipe is empty')
        return True
    hbase.REPLAY['tag'] = 'C16:' + str(spec.get('property'))
    return False


# ---------------------------------------------------------------------------
# SimpleQueue is "a locked pipe": what the model-checked scenario (simplequeue) assumes about every transfer - it happens while the
# queue's write (read) lock is held, whatever the size of the message - is checked here on the real send_payload / get_payload with a
# payload whose LENGTH is a solver variable (0 .. 2**31): one send of exactly that object, under the write lock; one receive, under the
# read lock; locks released afterwards also when the transfer fails.

class _SizedPayload:
    def __init__(self, n):
        self.n = n

    def __len__(self):
        return self.n


class _RecLock:
    def __init__(self):
        self.held = 0
        self.uses = 0

    def acquire(self, *a):
        self.held += 1
        self.uses += 1
        return True

    def release(self):
        self.held -= 1

    def __enter__(self):
        return self.acquire()

    def __exit__(self, *a):
        self.release()
        return False


def h_sq_locked(n: int, fails: bool) -> bool:
    """
    pre: 0 <= n <= 2 ** 31
    post: _
    """
    wlock, rlock = _RecLock(), _RecLock()
    sends, recvs, bad = [], [], []
    payload = _SizedPayload(n)

    class End:
        def send_bytes(self, value, *a):
            sends.append(value)
            if not wlock.held:
                bad.append('C16:simplequeue:message-written-without-the-write-lock')
            if fails:
                raise OSError(32, 'Broken pipe')

        def recv_bytes(self, *a):
            recvs.append(1)
            if not rlock.held:
                bad.append('C16:simplequeue:message-read-without-the-read-lock')
            if fails:
                raise EOFError()
            return b'payload'
    q = bq.SimpleQueue.__new__(bq.SimpleQueue)
    q._reader = q._writer = End()
    q._rlock, q._wlock = rlock, wlock
    try:
        q.send_payload(payload)
    except OSError:
        if not fails:
            return fail('C16:simplequeue:send-raises')
    got = None
    try:
        got = q.get_payload()
    except EOFError:
        if not fails:
            return fail('C16:simplequeue:receive-raises')
    if bad:
        return fail(bad[0])
    if len(sends) != 1 or sends[0] is not payload:
        return fail('C16:simplequeue:payload-not-sent-exactly-once')
    if len(recvs) != 1 or (not fails and got != b'payload'):
        return fail('C16:simplequeue:payload-not-received-exactly-once')
    if wlock.held or rlock.held:
        return fail('C16:simplequeue:lock-kept-after-the-transfer')
    return True

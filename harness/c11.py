"""C11 - restart rate limiting: bounded differential run of the real
restart_state.step against a ghost-history oracle (E1)."""
from typing import List
from harness.hbase import fail, tier, Prune, ND
from billiard.common import restart_state
from billiard.exceptions import RestartFreqExceeded

from harness.hbase import PART, NPART
NSTEPS = tier(4, 6)
MAXR = tier(3, 4)


def in_part(acks):
    # partition on the first three ack flags (NPART is 1 or 8)
    if NPART == 1:
        return True
    return (acks[0] == bool(PART & 1) and acks[1] == bool(PART & 2) and acks[2] == bool(PART & 4))


def _run(maxR, maxT, t0, ds, acks, want_raise_seen):
    rs = restart_state(maxR, maxT)
    now = t0
    opened = None          # instant at which the current window was opened
    admitted = []          # instants of admissions since the window opened / last reset
    raised_any = False
    for i in range(len(ds)):
        now = now + ds[i]
        if acks[i]:
            # a job was accepted: this is what ResultHandler.on_ack does
            rs.R = 0
            admitted = []
        raised = False
        try:
            rs.step(now)
        except RestartFreqExceeded:
            raised = True
        # oracle, from the statement
        if opened is not None and now - opened >= maxT:
            opened = now        # window expired: count starts afresh
            admitted = []
            expect = False
        else:
            expect = len(admitted) >= maxR
        if opened is None:
            opened = now
        if expect:
            admitted = []       # "reset in case someone catches the error"
        else:
            admitted.append(now)
        if raised != expect:
            return fail('C11:step:raise-mismatch')
        raised_any = raised_any or raised
    if want_raise_seen and raised_any:
        return False
    return True


def h_restart(maxR: int, maxT: int, t0: int, ds: List[int], acks: List[bool]) -> bool:
    """
    pre: 1 <= maxR <= MAXR and maxT >= 1 and t0 >= 1
    pre: len(ds) == NSTEPS and len(acks) == NSTEPS and all(d >= 0 for d in ds) and in_part(acks)
    post: _
    """
    return _run(maxR, maxT, t0, ds, acks, False)


def h_restart_twin(maxR: int, maxT: int, t0: int, ds: List[int], acks: List[bool]) -> bool:
    """
    pre: 1 <= maxR <= MAXR and maxT >= 1 and t0 >= 1
    pre: len(ds) == NSTEPS and len(acks) == NSTEPS and all(d >= 0 for d in ds) and in_part(acks)
    post: _
    """
    return _run(maxR, maxT, t0, ds, acks, True)

"""C11 - restart rate limiting: bounded differential run of the real
restart_state.step against a ghost-history oracle (E1)."""
from typing import List
from harness.hbase import fail, tier, Prune, ND
from billiard.common import restart_state
from billiard.exceptions import RestartFreqExceeded

from harness.hbase import PART, NPART, NDCode, CODEMAX
NSTEPS = tier(4, 6)
MAXR = tier(3, 4)


def in_part(acks):
    # partition on the first three ack flags (NPART is 1 or 8)
    if NPART == 1:
        return True
    return (acks[0] == bool(PART & 1) and acks[1] == bool(PART & 2) and acks[2] == bool(PART & 4))


def _run(maxR, maxT, t0, ds, acks, want_raise_seen):
    rs = restart_state(maxR, maxT)
    now = t0
    opened = None          # instant at which the current window was opened
    admitted = []          # instants of admissions since the window opened / last reset
    raised_any = False
    for i in range(len(ds)):
        now = now + ds[i]
        if acks[i]:
            # a job was accepted: this is what ResultHandler.on_ack does
            rs.R = 0
            admitted = []
        raised = False
        try:
            rs.step(now)
        except RestartFreqExceeded:
            raised = True
        # oracle, from the statement
        if opened is not None and now - opened >= maxT:
            opened = now        # window expired: count starts afresh
            admitted = []
            expect = False
        else:
            expect = len(admitted) >= maxR
        if opened is None:
            opened = now
        if expect:
            admitted = []       # "reset in case someone catches the error"
        else:
            admitted.append(now)
        if raised != expect:
            return fail('C11:step:raise-mismatch')
        raised_any = raised_any or raised
    if want_raise_seen and raised_any:
        return False
    return True


def h_restart(maxR: int, maxT: int, t0: int, ds: List[int], acks: List[bool]) -> bool:
    """
    pre: 1 <= maxR <= MAXR and maxT >= 1 and t0 >= 1
    pre: len(ds) == NSTEPS and len(acks) == NSTEPS and all(d >= 0 for d in ds) and in_part(acks)
    post: _
    """
    return _run(maxR, maxT, t0, ds, acks, False)


def h_restart_twin(maxR: int, maxT: int, t0: int, ds: List[int], acks: List[bool]) -> bool:
    """
    pre: 1 <= maxR <= MAXR and maxT >= 1 and t0 >= 1
    pre: len(ds) == NSTEPS and len(acks) == NSTEPS and all(d >= 0 for d in ds) and in_part(acks)
    post: _
    """
    return _run(maxR, maxT, t0, ds, acks, True)


# ---------------------------------------------------------------------------
# pool side: where and when the limiter is consulted

def _pool_side(mr, ev, want):
    import billiard.pool as bp
    import billiard.common as bc
    from harness import world as W
    steps = []           # (now, raised) of every step() call

    class Recording(bc.restart_state):
        def step(self, now=None):
            t = bp.monotonic()
            try:
                bc.restart_state.step(self, now)
            except RestartFreqExceeded:
                steps.append((t, True))
                raise
            steps.append((t, False))
    w = W.World()
    real = bp.restart_state
    bp.restart_state = Recording
    try:
        p = w.make_pool(2, max_restarts=mr, max_restart_freq=10, lost_worker_timeout=10)
    finally:
        bp.restart_state = real
    if not isinstance(p.restart_state, Recording):
        return fail('C11:pool:limiter-not-built-from-configuration')
    nd = ev
    admitted_in_window = 0
    for _ in range(NEV):
        e = nd.draw(0, 2)
        if e == 0:
            k = nd.draw(0, 1)
            x = p._pool[k]
            status = (-9, 0, 155)[nd.draw(0, 2)]
            abnormal = status not in (0, bp.EX_RECYCLE)
            x.die(status)
            n_steps, n_started = len(steps), w.started
            try:
                w.tick()
                raised = False
            except RestartFreqExceeded:
                raised = True
            new = steps[n_steps:]
            if abnormal:
                if len(new) != 1:
                    return fail('C11:pool:limiter-not-consulted-exactly-once-per-abnormal-exit')
            elif new:
                return fail('C11:pool:clean-or-recycle-exit-consumed-budget')
            if raised:
                if not (new and new[-1][1]):
                    return fail('C11:pool:RestartFreqExceeded-from-nowhere')
                if w.started != n_started:
                    return fail('C11:pool:forked-although-the-budget-was-exceeded')
                if want == 'raise':
                    return False
                return True          # the pool is closed by its caller from here on
            if w.started != n_started + 1 or len(p._pool) != 2:
                return fail('C11:pool:replacement-not-started')
            if want == 'admit' and abnormal:
                return False
        elif e == 1:
            w.adv((0, 5, 11)[nd.draw(0, 2)])
        else:
            # a job is accepted: the count starts afresh
            r = p.apply_async(W.val, ('j',))
            idle = [x for x in p._pool if x.state == 'idle']
            w.w_take(idle[0])
            untracked = nd.flag()
            if untracked:
                r.discard()          # the caller gave the job up before its acceptance was read: a worker accepted a job all the same
            w.drain_results()
            if p.restart_state.R != 0:
                return fail('C11:pool:acceptance-did-not-reset-the-count' + (':job-no-longer-tracked' if untracked else ''))
            w.w_done(idle[0])
            w.drain_results()
    return True


NEV = tier(3, 4)


def _in_part(code):
    """NPART = 6 parts: the budget (first draw, base 2) x the first event (second draw, base 3) - a sub-interval of the code range"""
    if NPART <= 1:
        return True
    w1 = CODEMAX // 2
    w2 = w1 // 3
    off = (PART % 2) * w1 + ((PART // 2) % 3) * w2
    return off <= code < off + w2


def h_pool_side(code: int) -> bool:
    """
    pre: 0 <= code < CODEMAX and _in_part(code)
    post: _
    """
    try:
        nd = NDCode(code)
        return _pool_side(1 + nd.draw(0, 1), nd, None)
    except Prune:
        return True


def h_pool_side_twin(code: int) -> bool:
    """
    pre: 0 <= code < CODEMAX and _in_part(code)
    post: _
    """
    try:
        nd = NDCode(code)
        # (a budget of 2 cannot be exceeded by the events left after a first event that is not an exit: the witness of those parts is an
        # admitted replacement of an abnormally exited worker)
        reachable = NPART <= 1 or not (PART % 2 == 1 and (PART // 2) % 3 != 0)
        return _pool_side(1 + nd.draw(0, 1), nd, 'raise' if reachable else 'admit')
    except Prune:
        return True


def h_burst(nproc: int, rounds: int) -> bool:
    """
    pre: 1 <= nproc <= 3 and 11 <= rounds <= 13
    post: _
    """
    # Supervisor.body: a burst limiter of 10 restarts per slot per second for exactly the first ten rounds
    import billiard.pool as bp
    from harness import world as W
    from harness.hbase import realize
    nproc = realize(nproc)
    rounds = realize(rounds)
    w = W.World()
    p = w.make_pool(nproc, max_restarts=7, max_restart_freq=3)
    configured = p.restart_state
    seen = []
    sup = p._worker_handler

    def maintain():
        rs = p.restart_state
        seen.append((rs is configured, rs.maxR, rs.maxT))
        if len(seen) >= rounds:
            sup._state = bp.CLOSE
    p._maintain_pool = maintain
    sup.body()
    if len(seen) != rounds:
        return fail('C11:burst:rounds')
    for k, (is_cfg, maxR, maxT) in enumerate(seen):
        if k < 10:
            if is_cfg or maxR != 10 * nproc or maxT != 1:
                return fail('C11:burst:start-up-limit-not-10-per-slot-per-second')
        elif not is_cfg:
            return fail('C11:burst:configured-limiter-not-restored')
    return True


# ---------------------------------------------------------------------------
# "the count starts afresh when ... a job has been accepted": the limiter whose count an accepted job resets is the pool's
# configured limiter.  In a threaded pool the Supervisor thread is started by Pool.__init__ BEFORE the result handler is built
# and may run up to its first sleep in the meantime; whatever it does before that sleep must not change which limiter the
# result handler's accept path holds.  (The thread is played up to its first time.sleep by the patched start().)

class _Parked(BaseException):
    pass


def h_ack_limiter(nproc: int, maxr: int, freq: int) -> bool:
    """
    pre: 1 <= nproc <= 3 and 1 <= maxr <= 5 and 1 <= freq <= 5
    post: _
    """
    import billiard.pool as bp
    from harness import world as W
    from harness.hbase import realize
    nproc = realize(nproc)
    w = W.World()
    saved = (bp.PoolThread.start, bp.PoolThread.join)
    parked = []

    def start(self, *a, **k):
        self._was_started = True
        if isinstance(self, bp.Supervisor):
            # the new thread runs at once, as far as its first sleep
            real_sleep = bp.time.sleep

            def sleep(t):
                raise _Parked()
            bp.time.sleep = sleep
            try:
                self.body()
            except _Parked:
                parked.append(True)
            finally:
                bp.time.sleep = real_sleep
    bp.PoolThread.start = start
    bp.PoolThread.join = lambda self, timeout=None: None
    try:
        p = w.make_pool(nproc, threads=True, max_restarts=maxr, max_restart_freq=freq)
    finally:
        bp.PoolThread.start, bp.PoolThread.join = saved
    if not parked:
        return fail('C11:harness:supervisor-did-not-reach-a-sleep')
    rs = p._result_handler.restart_state
    if rs.maxR != maxr or rs.maxT != freq:
        return fail('C11:pool:acceptance-resets-a-limiter-that-is-not-the-configured-one')
    # an accepted job resets exactly that object
    rs.R = 3
    r = p.apply_async(W.val, ('j',))
    w.feed()
    w.w_take(p._pool[0])
    w.drain_results()
    if rs.R != 0:
        return fail('C11:pool:acceptance-did-not-reset-the-count')
    p._terminate.cancel()
    return True

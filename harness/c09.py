"""C09 - the pool keeps its size; workers are recycled on schedule without harm.

Real code: Pool._maintain_pool/_join_exited_workers/_repopulate_pool/
_avail_index/_create_worker_process, grow, shrink, _iterinactive,
ResultHandler on_ready (consumed-result counters), result handles.
The worker side of the quota (at most N task bodies, EX_RECYCLE after the
results were consumed, memory-limit exit) is harness/c03.py.
"""
from typing import List
import billiard.pool as bp
from billiard.exceptions import WorkerLostError
from harness.hbase import fail, tier, Prune, ND, trace, PART, NPART, untraced, NDCode, CODEMAX
from harness import world as W

K = tier(3, 4)
LWT = 10


def _live(p, w):
    return [x for x in w.procs if x.exitcode is None]


def _size(nd, want):
    """exits with any status, grow, shrink and ticks in any order"""
    w = W.World()
    with untraced():
        p = w.make_pool(3, lost_worker_timeout=LWT)
    grown = False
    shrinks_since_tick = 0
    double_shrink = False
    for _ in range(K):
        e = nd.draw(0, 3)
        if e == 0:
            k = nd.draw(0, 2)
            if k >= len(p._pool) or p._pool[k].exitcode is not None:
                raise Prune()
            w.w_exit(p._pool[k], (-9, 0, 155)[nd.draw(0, 2)])
        elif e == 1:
            if p._processes >= 4:
                raise Prune()
            p.grow(1)
            grown = True
        elif e == 2:
            if p._processes <= 1:
                raise Prune()
            # the supervisor thread may run a pass at any point of shrink(): while it is inside the slot semaphore, or right
            # after the chosen worker was told to go (an idle worker is gone at once)
            pre = nd.draw(0, 2)
            real_sem_shrink = p._putlock.shrink

            def sem_shrink():
                real_sem_shrink()
                if pre == 1:
                    w.tick()
            p._putlock.shrink = sem_shrink
            for x in p._pool:
                def tc(x=x):
                    type(x).terminate_controlled(x)
                    if pre == 2:
                        w.tick()
                x.terminate_controlled = tc
            try:
                p.shrink(1)
            finally:
                del p._putlock.shrink
                for x in p._pool:
                    x.__dict__.pop('terminate_controlled', None)
            shrinks_since_tick += 1
            if shrinks_since_tick > 1:
                double_shrink = True
            if want == 'shrink':
                return False
        else:
            w.tick()
            shrinks_since_tick = 0
            if len(p._pool) != p._processes:
                return fail('C09:size-after-tick' + (':more-than-configured' if len(p._pool) > p._processes else '')
                            + (':shrink-called-twice-between-ticks' if double_shrink else ''))
            idx = sorted(x.index for x in p._pool)
            if len(set(idx)) != len(idx):      # the statement asks for distinct slot indices (after a shrink an index may exceed the new size)
                return fail('C09:slot-indices')
            if any(x.exitcode is not None for x in p._pool):
                return fail('C09:dead-worker-in-pool')
            if sorted(p._poolctrl) != sorted(x.pid for x in p._pool) or sorted(p._on_ready_counters) != sorted(x.pid for x in p._pool):
                return fail('C09:control-tables')
        if len(_live(p, w)) > max(p._processes, 0) and e == 3:
            return fail('C09:more-live-workers-than-configured')
        if p._putlock._initial_value != p._processes:
            return fail('C09:slot-bound-differs-from-size')
    return True


def h_size(code: int) -> bool:
    """
    pre: 0 <= code < CODEMAX
    post: _
    """
    try:
        return _size(NDCode(code), None)
    except Prune:
        return True


def h_size_twin(code: int) -> bool:
    """
    pre: 0 <= code < CODEMAX
    post: _
    """
    try:
        return _size(NDCode(code), 'shrink')
    except Prune:
        return True


def _recycle(nd, kind, quota, want):
    """pool of two with a per-child quota: jobs of every kind complete with
    their real results, nobody waits out the 30 s guard, the pool is back to size"""
    w = W.World()
    p = w.make_pool(2, maxtasksperchild=quota, lost_worker_timeout=LWT)
    w.drain_bound = LWT
    obs = []
    expect = []
    if kind == 'apply':
        for t in ('a0', 'a1', 'a2'):
            obs.append(W.Observer(p.apply_async(W.val, (t,)), 'apply'))
            expect.append(('r', t))
    else:
        items = ['m0', 'm1', 'm2']
        if kind == 'map':
            h = p.map_async(W.val, items, chunksize=1)
            W.int_timeout(h)
        elif kind == 'imap':
            h = p.imap(W.val, items)
        else:
            h = p.imap_unordered(W.val, items)
        obs.append(W.Observer(h, kind))
        expect = [('r', t) for t in items]
        w.feed()
    recycled = 0
    for _ in range(K + 2):
        e = nd.draw(0, 3)
        if e <= 1:
            x = p._pool[e] if e < len(p._pool) else None
            if x is None or x.exitcode is not None:
                raise Prune()
            if x.state == 'idle':
                if not p._inqueue.q:
                    raise Prune()
                w.w_take(x)
            elif x.state == 'busy':
                w.w_done(x)
            else:
                r = w.w_try_recycle(x)          # leaves only when its results were consumed
                recycled += 1
                if want:
                    return False                # reachability twin: a worker was recycled
        elif e == 2:
            w.rh()
        elif e == 3:
            w.tick()
            if len(p._pool) != 2:
                return fail('C09:size-after-tick')
        # a worker that reached its quota and whose results were all handled must be free to go
        for x in p._pool:
            if x.state == 'draining' and x.exitcode is None and not p._outqueue.q:
                ctr = p._on_ready_counters.get(x.pid)
                if ctr is None or ctr.value < x.completed:
                    return fail('C09:held-up:consumed-results-not-credited:' + kind)
        for o in obs:
            if o.observe().lost:
                return fail('C09:job-failed-by-recycling:' + kind)
    # run to completion
    for _ in range(6):
        for x in list(p._pool):
            if x.exitcode is None and x.state == 'draining':
                if not p._outqueue.q:
                    ctr = p._on_ready_counters.get(x.pid)
                    if ctr is None or ctr.value < x.completed:
                        return fail('C09:held-up:consumed-results-not-credited:' + kind)
                    w.w_try_recycle(x)
                    recycled += 1
                    if want:
                        return False
            elif x.exitcode is None and x.state == 'idle' and p._inqueue.q:
                w.w_take(x)
            elif x.exitcode is None and x.state == 'busy':
                w.w_done(x)
        w.drain_results()
        w.tick()
    got = []
    for o in obs:
        o.observe()
        if o.lost:
            return fail('C09:job-failed-by-recycling:' + kind)
        if not o.complete():
            return fail('C09:job-held-up-by-recycling:' + kind)
        got.extend(o.values())
    if sorted(got) != sorted(expect):
        return fail('C09:job-lost-or-duplicated-by-recycling:' + kind)
    if len(p._pool) != 2:
        return fail('C09:size-after-tick')
    for x in w.procs:
        if x.completed > quota:
            return fail('C09:quota-exceeded')
    if want and recycled:
        return False
    return True


KINDS = ('apply', 'map', 'imap', 'imapu')


def h_recycle(code: int) -> bool:
    """
    pre: 0 <= code < CODEMAX
    post: _
    """
    try:
        return _recycle(NDCode(code), KINDS[PART % 4], 1 + (PART // 4) % 2, False)
    except Prune:
        return True


def h_recycle_twin(code: int) -> bool:
    """
    pre: 0 <= code < CODEMAX
    post: _
    """
    try:
        return _recycle(NDCode(code), KINDS[PART % 4], 1 + (PART // 4) % 2, True)
    except Prune:
        return True

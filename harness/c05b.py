"""C05, second scenario: two jobs, and user code that runs *inside* the scan.

The time-limit scan calls the timed-out job's timeout callback inline.  While that callback runs, the result handler
thread goes on handling messages: here the callback of job A lets the result handler process job B's pending result
(a second pre-emption point besides the snapshot copy, and one that does not depend on how the scan builds its
snapshot).  B finished inside its limit: it must keep its result and its worker must not be signalled.
"""
import billiard.pool as bp
from billiard.exceptions import TimeLimitExceeded
from harness.hbase import fail, tier, Prune, PART, NPART, untraced, NDCode, CODEMAX
from harness import world as W

TMAX = 20


def _two_jobs(limit, late, code, want):
    nd = NDCode(code)
    use_pool_limit = nd.flag()
    b_done_before_scan = nd.flag()
    drain_in_callback = nd.flag()
    w = W.World()
    p = w.make_pool(2, timeout=(limit if use_pool_limit else None), enable_timeouts=True)
    fired = []

    def a_timed_out(soft=None, timeout=None):
        fired.append((soft, timeout))
        if drain_in_callback and p._outqueue.q:
            w.drain_results()                    # the result handler thread runs while user code holds up the scan
    A = W.Observer(p.apply_async(W.val, ('A',), timeout=(None if use_pool_limit else limit), timeout_callback=a_timed_out), 'apply')
    B = W.Observer(p.apply_async(W.val, ('B',), timeout=(None if use_pool_limit else limit)), 'apply')
    wa, wb = p._pool[0], p._pool[1]
    w.w_take(wa)
    w.w_take(wb)
    w.drain_results()
    if b_done_before_scan:
        w.w_done(wb)                             # B's result is in the pipe, not yet handled
    w.adv(limit + late)                          # both deadlines have passed when the scan runs
    nsig = len(w.signals)
    try:
        w.scan()
    except Exception as exc:
        return fail('C05:T5:scan-raises:two-jobs:' + type(exc).__name__)
    if want:
        return not fired
    if not A.observe().failed_with(TimeLimitExceeded):
        return fail('C05:T1:not-failed-at-expiry')
    b_finished_in_time = b_done_before_scan and drain_in_callback
    B.observe()
    if b_finished_in_time:
        # B's result was processed before the scan looked at B: it keeps it, its worker is left alone
        if B.outcomes != [(True, ('r', 'B'))]:
            return fail('C05:T2:finished-job-timed-out-after-its-result-was-processed')
        if any(s[0] == wb.pid for s in w.signals[nsig:]):
            return fail('C05:T2:worker-of-a-finished-job-signalled')
        w.drain_results()
        if B.h._value != ('r', 'B') or B.h._success is not True:
            return fail('C05:T3:outcome-changed-after-the-result-was-observable')
    else:
        if not B.failed_with(TimeLimitExceeded):
            return fail('C05:T1:not-failed-at-expiry')
    return True


def h_two_jobs(limit: int, late: int, code: int) -> bool:
    """
    pre: 1 <= limit <= TMAX and 0 <= late <= 5 and 0 <= code < CODEMAX
    post: _
    """
    try:
        return _two_jobs(limit, late, code, False)
    except Prune:
        return True


def h_two_jobs_twin(limit: int, late: int, code: int) -> bool:
    """
    pre: 1 <= limit <= TMAX and 0 <= late <= 5 and 0 <= code < CODEMAX
    post: _
    """
    try:
        return _two_jobs(limit, late, code, True)
    except Prune:
        return True

"""C19 - process exit status and liveness are reported faithfully.

Real code: popen_fork.Popen.poll/wait, popen_forkserver.Popen.poll,
BaseProcess.start/join/is_alive/exitcode/_bootstrap.
The kernel is a stub: os.waitpid returns a symbolic (pid, status), raises EINTR
or ECHILD; the wait-status macros are pure-Python bit operations validated
against the real os.W* functions on all 65 536 statuses every run.
"""
import errno
import os as _os
import sys
from typing import List
import billiard.popen_fork as pf
import billiard.process as bproc
from harness.hbase import fail, tier, Prune, ND, realize, pick, untraced, PART, NPART, CODEMAX

NPOLL = tier(3, 4)


def WIFSIGNALED(s):
    return ((s & 0x7f) + 1) >> 1 > 0 and (s & 0x7f) != 0x7f and (s & 0x7f) != 0


def WTERMSIG(s):
    return s & 0x7f


def WIFEXITED(s):
    return (s & 0x7f) == 0


def WEXITSTATUS(s):
    return (s >> 8) & 0xff


def decode(s):
    """what a parent must report for wait status s"""
    if WIFSIGNALED(s):
        return -WTERMSIG(s)
    return WEXITSTATUS(s)


def kernel_status_exit(code):
    return (code & 0xff) << 8


class FakeOS:
    WNOHANG = _os.WNOHANG

    def __init__(self, script):
        self.script = script      # list of ('ret', pid, status) | ('eintr',) | ('echild',)
        self.calls = 0
        self.flags = []

    def __getattr__(self, name):
        return getattr(_os, name)

    def waitpid(self, pid, flag):
        self.flags.append(flag)
        if self.calls >= len(self.script):
            raise Prune()
        ev = self.script[self.calls]
        self.calls += 1
        if ev[0] == 'eintr':
            raise OSError(errno.EINTR, 'interrupted')
        if ev[0] == 'echild':
            raise OSError(errno.ECHILD, 'no child')
        return ev[1], ev[2]

    WIFSIGNALED = staticmethod(WIFSIGNALED)
    WTERMSIG = staticmethod(WTERMSIG)
    WIFEXITED = staticmethod(WIFEXITED)
    WEXITSTATUS = staticmethod(WEXITSTATUS)


def v_waitstatus(tier_name):
    for s in range(65536):
        if bool(_os.WIFSIGNALED(s)) != bool(WIFSIGNALED(s)):
            return {'status': 'error', 'messages': ['WIFSIGNALED model differs at %d' % s], 'cases': s}
        if _os.WIFSIGNALED(s) and _os.WTERMSIG(s) != WTERMSIG(s):
            return {'status': 'error', 'messages': ['WTERMSIG model differs at %d' % s], 'cases': s}
        if bool(_os.WIFEXITED(s)) != bool(WIFEXITED(s)):
            return {'status': 'error', 'messages': ['WIFEXITED model differs at %d' % s], 'cases': s}
        if _os.WIFEXITED(s) and _os.WEXITSTATUS(s) != WEXITSTATUS(s):
            return {'status': 'error', 'messages': ['WEXITSTATUS model differs at %d' % s], 'cases': s}
    return {'status': 'confirmed', 'cases': 65536, 'nontrivial_witness': True,
            'detail': 'pure-Python wait-status macros == os.W* on all 65536 statuses'}


def _poll(kinds, status, otherpid, want):
    """kinds[i] in {0: waitpid returns (0,0) (not yet), 1: EINTR, 2: ECHILD, 3: returns (own pid, status), 4: returns (other pid, status)}"""
    script = []
    for k in kinds:
        if k == 0:
            script.append(('ret', 0, 0))
        elif k == 1:
            script.append(('eintr',))
        elif k == 2:
            script.append(('echild',))
        elif k == 3:
            script.append(('ret', 4242, status))
        else:
            script.append(('ret', otherpid, status))
    fos = FakeOS(script)
    pf.os = fos
    p = pf.Popen.__new__(pf.Popen)
    p.pid = 4242
    p.returncode = None
    p.sentinel = None
    seen = None
    i = 0
    for _ in range(NPOLL):
        if fos.calls >= len(script):
            break
        before = fos.calls
        try:
            r = p.poll()
        except Prune:
            return True
        except AssertionError:
            # status is neither "exited" nor "signalled" (stopped/continued): waitpid without WUNTRACED never returns those
            raise Prune()
        consumed = script[before:fos.calls]
        got_own = any(ev[0] == 'ret' and ev[1] == 4242 for ev in consumed)
        if seen is None:
            if got_own:
                seen = decode(status)
                if r != seen:
                    return fail('C19:poll:wrong-exit-code')
            elif r is not None:
                return fail('C19:poll:exit-code-before-child-ended')
        else:
            if r != seen or fos.calls != before:
                return fail('C19:poll:exit-code-changed-or-child-waited-twice')
        if p.returncode != seen:
            return fail('C19:poll:returncode-attribute')
    if want and seen is not None and seen < 0:
        return False
    return True


def h_poll(kinds: List[int], status: int, otherpid: int) -> bool:
    """
    pre: len(kinds) == NPOLL + 2 and all(0 <= k <= 4 for k in kinds) and 0 <= status <= 65535 and otherpid != 4242 and otherpid > 0 and (NPART == 1 or kinds[0] == PART)
    post: _
    """
    try:
        return _poll(kinds, status, otherpid, False)
    except Prune:
        return True


def h_poll_twin(kinds: List[int], status: int, otherpid: int) -> bool:
    """
    pre: len(kinds) == NPOLL + 2 and all(0 <= k <= 4 for k in kinds) and 0 <= status <= 65535 and otherpid != 4242 and otherpid > 0 and (NPART == 1 or kinds[0] == PART)
    post: _
    """
    try:
        return _poll(kinds, status, otherpid, True)
    except Prune:
        return True


def h_exit_roundtrip(n: int, sig: int, core: bool, killed: bool) -> bool:
    """
    pre: 0 <= n <= 255 and 1 <= sig <= 64
    post: _
    """
    # what the kernel reports for exit(n) / death by signal sig, through the real Popen.poll
    status = (sig | (0x80 if core else 0)) if killed else kernel_status_exit(n)
    fos = FakeOS([('ret', 4242, status)])
    pf.os = fos
    p = pf.Popen.__new__(pf.Popen)
    p.pid = 4242
    p.returncode = None
    p.sentinel = None
    r = p.poll()
    if killed:
        return r == -sig or fail('C19:signal-death-not-reported-as-minus-signal')
    return r == n or fail('C19:exit-code-not-reported')


def h_wait(ready: bool, timeout_kind: int, status: int) -> bool:
    """
    pre: 0 <= timeout_kind <= 2 and 0 <= status <= 65535
    post: _
    """
    import billiard.connection as bc
    calls = []

    def fake_wait(objs, timeout=None):
        calls.append(timeout)
        return list(objs) if ready else []
    real = bc.wait
    bc.wait = fake_wait
    try:
        fos = FakeOS([('ret', 4242, status)])
        pf.os = fos
        p = pf.Popen.__new__(pf.Popen)
        p.pid = 4242
        p.returncode = None
        p.sentinel = 9
        timeout = (None, 0.0, 5)[timeout_kind]
        try:
            r = p.wait(timeout)
        except AssertionError:
            return True
        if timeout is not None and not ready:
            if r is not None or fos.calls:
                return fail('C19:wait:returned-a-code-although-the-child-did-not-end-within-the-timeout')
            return True
        if r != decode(status):
            return fail('C19:wait:wrong-exit-code')
        if timeout is None and calls:
            return fail('C19:wait:readiness-wait-without-timeout')
        return True
    finally:
        bc.wait = real


class FakePopen:
    """a child as BaseProcess sees it"""

    def __init__(self, proc):
        self.proc = proc
        self.sentinel = 11
        self.returncode = None
        self.pending = None
        self.closed = False

    def poll(self, flag=0):
        return self.returncode

    def wait(self, timeout=None):
        return self.returncode

    def close(self):
        self.closed = True


class FakeOSPid:
    def __init__(self, pid):
        self._pid = pid

    def __getattr__(self, name):
        return getattr(_os, name)

    def getpid(self):
        return self._pid


def h_guards(creator: int, caller: int, code: int, ended: bool, second: bool) -> bool:
    """
    pre: 1 <= creator <= 3 and 1 <= caller <= 3 and -64 <= code <= 255
    post: _
    """
    saved = (bproc.os, set(bproc._children))
    try:
        bproc.os = FakeOSPid(creator)
        P = type('P', (bproc.BaseProcess,), {'_Popen': staticmethod(FakePopen), '_start_method': None})
        p = P(target=None)
        if p.exitcode is not None or p._popen is not None:
            return fail('C19:guards:exitcode-before-start')
        bproc.os = FakeOSPid(caller)
        try:
            p.start()
            started = True
        except AssertionError:
            started = False
        if started != (caller == creator):
            return fail('C19:guards:start-by-foreign-process' if started else 'C19:guards:start-refused-for-creator')
        if not started:
            try:
                p.join()
            except AssertionError:
                return True
            return fail('C19:guards:join-of-unstarted-or-foreign-process-accepted')
        if second:
            try:
                p.start()
            except AssertionError:
                return True
            return fail('C19:guards:started-twice')
        if p not in bproc._children:
            return fail('C19:guards:not-an-active-child-after-start')
        if not p.is_alive() or p.exitcode is not None:
            return fail('C19:guards:not-alive-before-the-child-ended')
        if ended:
            p._popen.returncode = code
        p.join(0)
        if ended:
            if p.is_alive() or p.exitcode != code:
                return fail('C19:guards:exitcode-after-end')
            if p in bproc._children:
                return fail('C19:guards:still-an-active-child-after-join')
        else:
            if not p.is_alive() or p.exitcode is not None or p not in bproc._children:
                return fail('C19:guards:liveness-while-running')
        return True
    finally:
        bproc.os = saved[0]
        bproc._children.clear()
        bproc._children.update(saved[1])


class _Stderr:
    """a standard stream of the child; `fl` chooses how flushing it fails at exit: the buffered data cannot be written (reader gone,
    device full), the stream has no flush / is None (detached), flushing is not implemented, or the program closed the stream"""

    def __init__(self, fl=0):
        self.fl = fl

    def write(self, s):
        pass

    def flush(self):
        fl = self.fl
        if fl == 1:
            raise OSError(28, 'No space left on device')
        if fl == 2:
            raise BrokenPipeError(32, 'Broken pipe')
        if fl == 3:
            raise AttributeError('flush')
        if fl == 4:
            raise NotImplementedError()
        if fl == 5:
            raise ValueError('I/O operation on closed file.')


class _ChildExit(BaseException):
    def __init__(self, code):
        self.code = code


class _ChildOS:
    def __init__(self, real):
        self._real = real

    def __getattr__(self, name):
        return getattr(self._real, name)

    def pipe(self):
        return (70, 71)

    def fork(self):
        return 0

    def close(self, fd):
        pass

    def _exit(self, code):
        raise _ChildExit(code)


def h_bootstrap(path: int, x: int, fl: int, which: int) -> bool:
    """
    pre: 0 <= path <= 3 and -3 <= x <= 300 and 0 <= fl <= 5 and 0 <= which <= 3 and (fl == 0) == (which == 0) and (fl == 0 or x <= 3)
    post: _
    """
    import billiard.util as bu
    import billiard.popen_fork as pf
    saved_pf_os = pf.os
    saved = (bproc._current_process, bproc._children, bproc._process_counter, sys.stdin, sys.stderr,
             bu._exit_function, bu._run_after_forkers, bu.info, bu.error, sys.stdout)
    path = realize(path)
    fl = realize(fl)
    which = realize(which)
    ran = []

    def target():
        ran.append(1)
        if path == 1:
            raise ValueError('boom')
        if path == 2:
            sys.exit(x)
        if path == 3:
            raise KeyboardInterrupt()
    try:
        sys.stdin = None
        sys.stderr = _Stderr(fl if which & 2 else 0)
        sys.stdout = _Stderr(fl if which & 1 else 0)
        if fl == 3 and which & 1:
            sys.stdout = None
        bu._exit_function = lambda *a, **k: None
        bu._run_after_forkers = lambda: None
        bu.info = lambda *a, **k: None
        bu.error = lambda *a, **k: True
        P = type('P', (bproc.BaseProcess,), {'_start_method': None})
        p = P(target=target)
        # the child branch of the real popen_fork.Popen._launch: fork() returns 0, os._exit(code) ends the "child"
        pf.os = _ChildOS(saved_pf_os)
        try:
            pf.Popen._launch(pf.Popen.__new__(pf.Popen), p)
            return fail('C19:bootstrap:child-returned-from-launch')
        except _ChildExit as e:
            code = e.code
    finally:
        pf.os = saved_pf_os
        (bproc._current_process, bproc._children, bproc._process_counter, sys.stdin, sys.stderr,
         bu._exit_function, bu._run_after_forkers, bu.info, bu.error, sys.stdout) = saved
    if ran != [1]:
        return fail('C19:bootstrap:target-not-run-exactly-once')
    if path == 0 and code != 0:
        return fail('C19:bootstrap:normal-return-not-0' + (':unflushable-stream' if fl and which else ''))
    if path in (1, 3) and code != 1:
        return fail('C19:bootstrap:exception-not-1')
    if path == 2:
        if code != x:
            return fail('C19:bootstrap:sys.exit(n)-not-n')
        # through os._exit(code), the kernel and the parent's decoder: reported == n for 0 <= n <= 255
        if 0 <= x <= 255 and decode(kernel_status_exit(code)) != x:
            return fail('C19:bootstrap:exit-code-lost-on-the-way-to-the-parent')
    return True


# ---------------------------------------------------------------------------
# join(timeout) returns within the timeout: the readiness wait it rests on never waits longer than asked

def h_wait_deadline(timeout: int, none: bool, t0: int, d1: int, d2: int, eintr: int) -> bool:
    """
    pre: -5 <= timeout <= 20 and 1 <= t0 <= 100 and 0 <= d1 <= 30 and 0 <= d2 <= 30 and 0 <= eintr <= 2
    post: _
    """
    import billiard.connection as bc
    times = [t0, t0 + d1, t0 + d1 + d2]
    clock_calls = []

    def clock():
        clock_calls.append(1)
        return times[min(len(clock_calls) - 1, 2)]
    polls = []

    def fake_poll(fds, tmo):
        polls.append(tmo)
        if len(polls) <= eintr and (tmo is None or tmo > 0):
            raise OSError(errno.EINTR, 'interrupted')      # (PEP 475: a non-blocking poll is never interrupted)
        return []
    saved = (bc._poll, bc.monotonic)
    bc._poll, bc.monotonic = fake_poll, clock
    try:
        tmo = None if none else timeout
        bc.wait([7], tmo)
    finally:
        bc._poll, bc.monotonic = saved
    if tmo is None:
        if any(p is not None for p in polls):
            return fail('C19:wait:untimed-wait-polled-with-a-timeout')
        return True
    # the kernel wait must never be entered with a negative timeout (poll(2): wait for ever) or without one,
    # and never with more than the caller asked for
    for p in polls:
        if p is None:
            return fail('C19:wait:timed-wait-polled-without-a-timeout')
        if p > max(tmo, 0):
            return fail('C19:wait:polled-longer-than-asked')
    if tmo <= 0:
        if polls != [0] or polls[0] < 0:
            return fail('C19:wait:non-positive-timeout-does-not-poll-once-without-blocking')
    elif polls[0] < 0:
        return fail('C19:wait:negative-timeout-reaches-the-kernel')
    return True


# ---------------------------------------------------------------------------
# forkserver children: the exit code travels over the sentinel pipe as one unsigned; a child killed by a signal never writes it

FS_VALUES = (0, 1, 2, 3, 77, 255)


class _PipeOS:
    """os.read over a scripted pipe: `data` arrives in two pieces split at `cut`, then end of file (or an error)"""

    def __init__(self, real, data, cut, error):
        self._real = real
        self.chunks = [c for c in (data[:cut], data[cut:]) if c]
        self.error = error
        self.reads = 0

    def __getattr__(self, name):
        return getattr(self._real, name)

    def read(self, fd, n):
        self.reads += 1
        if self.error and not self.chunks:
            raise OSError(5, 'Input/output error')
        if not self.chunks:
            return b''
        c = self.chunks[0]
        out, rest = c[:n], c[n:]
        if rest:
            self.chunks[0] = rest
        else:
            self.chunks.pop(0)
        return out


def h_forkserver_poll(ready: bool, block: bool, mode: int, vi: int, cut: int) -> bool:
    """
    pre: 0 <= mode <= 3 and 0 <= vi < len(FS_VALUES) and 0 <= cut <= 8
    post: _
    """
    import billiard.popen_forkserver as pfs
    import billiard.forkserver as fs
    import billiard.connection as bc
    mode, vi, cut = pick(mode, 0, 3), pick(vi, 0, len(FS_VALUES) - 1), pick(cut, 0, 8)
    value = FS_VALUES[vi]
    with untraced():
        full = fs.UNSIGNED_STRUCT.pack(value)
        data = {0: full, 1: b'', 2: full[:cut][:7], 3: full[:cut][:7]}[mode]
        pos = _PipeOS(fs.os, data, cut, mode == 3)
    calls = []

    def fake_wait(objs, timeout=None):
        calls.append(timeout)
        return list(objs) if ready else []
    saved = (bc.wait, fs.os)
    bc.wait = fake_wait
    fs.os = pos
    try:
        p = pfs.Popen.__new__(pfs.Popen)
        p.pid = 4242
        p.returncode = None
        p.sentinel = 9
        r = p.poll(0 if block else _os.WNOHANG)
        if calls != [None if block else 0]:
            return fail('C19:forkserver:poll-waits-with-the-wrong-timeout')
        if not ready:
            if r is not None or pos.reads or p.returncode is not None:
                return fail('C19:forkserver:exit-code-reported-although-the-child-has-not-ended')
            return True
        if mode == 0:
            if r != value or p.returncode != value:
                return fail('C19:forkserver:exit-code-not-reported')
        else:
            # killed by a signal (or the pipe broke): the child never wrote a complete status
            if r is None or r == 0:
                return fail('C19:forkserver:abnormal-end-not-reported-as-non-zero')
        reads = pos.reads
        if p.poll() != r or pos.reads != reads:
            return fail('C19:forkserver:exit-code-changes-or-is-read-again')
        return True
    finally:
        bc.wait, fs.os = saved


# ---------------------------------------------------------------------------
# spawn start method: the sentinel the parent waits on is the read end of a pipe whose only write end lives in the child, so it
# becomes ready exactly when the child is gone (join(timeout) / is_alive rest on that).  The real Popen._launch runs over a
# small fake kernel (fd table, pipes, what the spawned child inherits).

class _Kernel:
    def __init__(self):
        self.next_fd = 20
        self.pipes = []            # [read_fd, write_fd]
        self.parent_open = set()
        self.child_fds = None
        self.written = {}

    def pipe(self):
        r, w = self.next_fd, self.next_fd + 1
        self.next_fd += 2
        self.pipes.append((r, w))
        self.parent_open.update((r, w))
        return r, w

    def close(self, fd):
        if fd not in self.parent_open:
            raise OSError(9, 'Bad file descriptor')
        self.parent_open.discard(fd)

    def write_end_holders(self, read_fd):
        w = [p[1] for p in self.pipes if p[0] == read_fd][0]
        holders = []
        if w in self.parent_open:
            holders.append('parent')
        if self.child_fds is not None and w in self.child_fds:
            holders.append('child')
        return holders


def h_spawn_launch(nextra: int) -> bool:
    """
    pre: 0 <= nextra <= 2
    post: _
    """
    import io as _io
    import billiard.popen_spawn_posix as psp
    nextra = pick(nextra, 0, 2)
    with untraced():
        k = _Kernel()

        class FakeOS:
            environ = {}

            def __getattr__(self, name):
                return getattr(_os, name)
            pipe = staticmethod(k.pipe)
            close = staticmethod(k.close)

        class FakeIO:
            BytesIO = _io.BytesIO

            @staticmethod
            def open(fd, mode, closefd=True):
                if fd not in k.parent_open:
                    raise OSError(9, 'Bad file descriptor')
                class Sink:
                    def __init__(self):
                        self.data = b''

                    def write(self, b):
                        self.data += bytes(b)

                    def getvalue(self):
                        return self.data

                    def __enter__(self):
                        return self

                    def __exit__(self, *a):
                        return False
                buf = Sink()
                k.written[fd] = buf
                return buf

        def spawnv(exe, cmd, fds):
            k.child_fds = list(fds)
            return 4242
        saved = (psp.os, psp.io, psp.spawnv_passfds, psp.spawn, psp.reduction, psp.context)

        class FakeSpawn:
            _Django_old_layout_hack__save = staticmethod(lambda: None)
            get_preparation_data = staticmethod(lambda name: {'name': name})
            get_executable = staticmethod(lambda: 'python')

            @staticmethod
            def get_command_line(**kw):
                k.cmd_kw = kw
                return ['python', '-c', 'x']

        class FakeReduction:
            dump = staticmethod(lambda obj, fp: fp.write(b'D'))
        import billiard.semaphore_tracker as st
        saved_getfd = st.getfd
        st.getfd = lambda: 90
        psp.os, psp.io, psp.spawnv_passfds, psp.spawn, psp.reduction = FakeOS(), FakeIO(), spawnv, FakeSpawn(), FakeReduction()
        try:
            p = psp.Popen.__new__(psp.Popen)
            p._fds = [60 + j for j in range(nextra)]        # handles the process object asked to pass on (duplicate_for_child)
            p.returncode = None
            proc = type('P', (), {'_name': 'child'})()
            p._launch(proc)
        finally:
            psp.os, psp.io, psp.spawnv_passfds, psp.spawn, psp.reduction, psp.context = saved
            st.getfd = saved_getfd
        if p.pid != 4242 or k.child_fds is None:
            return fail('C19:spawn:child-not-started')
        if p.sentinel not in k.parent_open:
            return fail('C19:spawn:sentinel-closed-in-the-parent')
        holders = k.write_end_holders(p.sentinel)
        if 'parent' in holders:
            return fail('C19:spawn:sentinel-never-becomes-ready:the-parent-keeps-its-write-end')
        if holders != ['child']:
            # nobody holds the write end: the sentinel reads as ready while the child is still running - join(timeout) falls
            # through to a blocking waitpid, is_alive/exitcode stay right only by luck
            return fail('C19:spawn:sentinel-ready-while-the-child-is-alive')
        data_r = k.cmd_kw.get('pipe_handle')
        if data_r not in k.child_fds or 90 not in k.child_fds or any(60 + j not in k.child_fds for j in range(nextra)):
            return fail('C19:spawn:child-does-not-inherit-its-handles')
        data_w = [pp[1] for pp in k.pipes if pp[0] == data_r][0]
        if data_w in k.parent_open or data_r in k.parent_open:
            return fail('C19:spawn:parent-leaks-the-data-pipe')
        if k.written.get(data_w) is None or k.written[data_w].getvalue() != b'DD':
            return fail('C19:spawn:preparation-data-not-written-to-the-child')
        return True


# ---------------------------------------------------------------------------
# forkserver start method, serving side: the real forkserver.main / _serve_one / write_unsigned over a fake kernel (signal table, listener
# socket, selector, fork, descriptors).  What the parent's Popen.poll reads from the status pipe (forkserver-poll above) is what the child
# branch writes here; a process started this way must be able to reap its own children (SIGCHLD disposition as before the server ignored it).

class _FsExit(BaseException):
    def __init__(self, code):
        self.code = code


class _FsKernel:
    def __init__(self, nd, fork_result, first_ready, pid):
        self.nd = nd
        self.fork_result = fork_result
        self.first_ready = first_ready
        self.pid = pid
        self.sigtable = {}
        self.log = []
        self.closed = set()
        self.written = {}
        self.selects = 0
        self.accepted = []
        self.in_child = False
        self.sigchld_at_main = 'unset'
        self.closed_at_main = None
        self.bytes_out = 0


def _fs_serve(code, want):
    import signal as _signal
    import billiard.forkserver as fs
    from harness.hbase import NDCode
    nd = NDCode(code)
    first_ready = nd.draw(0, 1)         # 0: a client connects, 1: the last client went away (EOF on the alive pipe)
    forked = nd.draw(0, 1)              # fork() returns 0 (we are the new child) / a pid (we are the server)
    vi = nd.draw(0, len(FS_VALUES) - 1)
    outcome = nd.draw(0, 1)             # the process object runs to an exit code / spawn._main raises
    old = (_signal.SIG_DFL, 'user-handler')[nd.draw(0, 1)]       # SIGCHLD disposition the server was started with
    ninh = nd.draw(0, 1) * 2
    # how the kernel splits each of the two status writes: all at once / byte by byte / one byte then the rest / all but one then the last
    wmodes = [nd.draw(0, 3), nd.draw(0, 3)]
    value = FS_VALUES[vi]
    with untraced():          # every choice is drawn: the rest runs concretely outside the tracer
        return _fs_serve_run(first_ready, forked, value, outcome, old, ninh, wmodes, want)


def _fs_serve_run(first_ready, forked, value, outcome, old, ninh, wmodes, want):
    import signal as _signal
    import billiard.forkserver as fs
    nd = None
    LISTENER_FD, ALIVE_R, CHILD_R, CHILD_W, ALIVE_W, STFD = 30, 31, 40, 41, 42, 43
    k = _FsKernel(nd, 0 if forked == 0 else 777, first_ready, 5151)
    k.sigtable[_signal.SIGCHLD] = old

    class _FakeSignal:
        def __getattr__(self, name):          # constants and anything harmless come from the real module
            return getattr(_signal, name)

        @staticmethod
        def signal(num, h):
            prev = k.sigtable.get(num, _signal.SIG_DFL)
            k.sigtable[num] = h
            return prev

        @staticmethod
        def getsignal(num):
            return k.sigtable.get(num, _signal.SIG_DFL)
    FakeSignal = _FakeSignal()

    class Sock:
        def __init__(self, name, fd):
            self.name, self.fd, self.is_closed = name, fd, False

        def getsockname(self):
            return '/fake/address'

        def fileno(self):
            return self.fd

        def close(self):
            self.is_closed = True
            k.log.append(('close', self.name, 'child' if k.in_child else 'server'))

        def accept(self):
            s = Sock('conn%d' % len(k.accepted), 50 + len(k.accepted))
            k.accepted.append(s)
            return s, None

        def __enter__(self):
            return self

        def __exit__(self, *a):
            self.close()
            return False
    listener = Sock('listener', LISTENER_FD)

    class FakeSocket:
        AF_UNIX = 1

        @staticmethod
        def socket(family, fileno=None):
            if fileno != LISTENER_FD:
                raise OSError(9, 'not the listener descriptor')
            return listener

    class Selector:
        def __enter__(self):
            return self

        def __exit__(self, *a):
            return False

        def register(self, obj, ev):
            k.log.append(('register', obj if isinstance(obj, int) else obj.name))

        def select(self, timeout=None):
            k.selects += 1
            Key = type('Key', (), {})
            kk = Key()
            if k.selects == 1 and k.first_ready == 0:
                kk.fileobj = listener
            else:
                kk.fileobj = ALIVE_R
            return [(kk, 1)]

    class FakeSelectors:
        EVENT_READ = 1
        DefaultSelector = Selector

    class FakeOS:
        devnull = _os.devnull

        def __getattr__(self, name):
            return getattr(_os, name)

        @staticmethod
        def fork():
            if k.fork_result == 0:
                k.in_child = True
            return k.fork_result

        @staticmethod
        def getpid():
            return k.pid if k.in_child else 4000

        @staticmethod
        def read(fd, n):
            if fd == ALIVE_R:
                return b''
            raise OSError(9, 'unexpected read')

        @staticmethod
        def close(fd):
            k.closed.add((fd, 'child' if k.in_child else 'server'))

        @staticmethod
        def write(fd, data):
            data = bytes(data)
            msg = 0 if k.bytes_out < 8 else 1
            mode = wmodes[msg]
            left = len(data)
            n = {0: left, 1: 1, 2: 1 if left == 8 else left, 3: left - 1 if left == 8 else left}[mode]
            n = max(1, n)
            k.bytes_out += n
            k.written.setdefault(fd, []).append(data[:n])
            return n

        @staticmethod
        def _exit(c):
            raise _FsExit(c)

    class FakeReduction:
        @staticmethod
        def recvfds(sock, maxfds):
            if sock.is_closed:
                raise OSError(9, 'socket closed before the descriptors were received')
            return [CHILD_R, CHILD_W, ALIVE_W, STFD] + [70 + j for j in range(ninh)]

    class FakeSpawn:
        @staticmethod
        def _main(fd):
            k.sigchld_at_main = k.sigtable.get(_signal.SIGCHLD)
            k.closed_at_main = (listener.is_closed, (ALIVE_R, 'child') in k.closed)
            k.main_fd = fd
            if outcome == 1:
                raise RuntimeError('cannot unpickle the process object')
            return value

    class FakeTracker:
        _semaphore_tracker = type('T', (), {'_fd': None})()

    class FakeSys:
        stdin = None
        modules = {}
        excepthook = staticmethod(lambda *a: None)
        exc_info = staticmethod(lambda: (None, None, None))
        stderr = type('E', (), {'flush': staticmethod(lambda: None)})()
    saved = (fs.signal, fs.socket, fs.selectors, fs.os, fs.reduction, fs.spawn, fs.semaphore_tracker, fs.sys,
             fs._forkserver._forkserver_address, fs._forkserver._forkserver_alive_fd, fs._forkserver._inherited_fds)
    fs.signal, fs.socket, fs.selectors, fs.os, fs.reduction, fs.spawn, fs.semaphore_tracker, fs.sys = (
        FakeSignal, FakeSocket, FakeSelectors, FakeOS(), FakeReduction, FakeSpawn, FakeTracker, FakeSys)
    end = None
    try:
        try:
            fs.main(LISTENER_FD, ALIVE_R, [])
            end = ('returned', None)
        except SystemExit:
            end = ('server-exit', None)
        except _FsExit as e:
            end = ('child-exit', e.code)
        inherited = fs._forkserver._inherited_fds
        alive_fd = fs._forkserver._forkserver_alive_fd
    finally:
        (fs.signal, fs.socket, fs.selectors, fs.os, fs.reduction, fs.spawn, fs.semaphore_tracker, fs.sys,
         fs._forkserver._forkserver_address, fs._forkserver._forkserver_alive_fd, fs._forkserver._inherited_fds) = saved
    if first_ready == 1 or forked == 1:
        # the server itself: it ignores SIGCHLD (nobody reaps its children: their status travels over the pipe), serves until the last
        # client is gone and then exits; the connection of a request it forked for is closed on its side
        if end != ('server-exit', None):
            return fail('C19:forkserver-main:server-does-not-exit-when-the-last-client-is-gone')
        if k.sigtable.get(_signal.SIGCHLD) is not _signal.SIG_IGN:
            return fail('C19:forkserver-main:server-does-not-ignore-SIGCHLD')
        if first_ready == 0 and not all(s.is_closed for s in k.accepted):
            return fail('C19:forkserver-main:server-keeps-the-request-connection-open')
        if k.written:
            return fail('C19:forkserver-main:server-writes-to-a-status-pipe')
        return not (want and first_ready == 0)
    # the new child
    if end is None or end[0] != 'child-exit':
        return fail('C19:forkserver-child:does-not-end-with-os._exit')
    if k.sigchld_at_main == 'unset':
        return fail('C19:forkserver-child:process-object-never-run')
    if k.sigchld_at_main is not old:
        # with SIGCHLD still ignored the started process cannot wait for children of its own (waitpid fails with ECHILD): their exit
        # statuses - the subject of this property one level down - are lost
        return fail('C19:forkserver-child:SIGCHLD-disposition-not-restored-before-the-process-runs')
    if k.closed_at_main != (True, True):
        return fail('C19:forkserver-child:server-descriptors-still-open-while-the-process-runs')
    if getattr(k, 'main_fd', None) != CHILD_R:
        return fail('C19:forkserver-child:process-object-read-from-the-wrong-descriptor')
    if alive_fd != ALIVE_W or list(inherited) != [70 + j for j in range(ninh)] or FakeTracker._semaphore_tracker._fd != STFD:
        return fail('C19:forkserver-child:received-descriptors-mixed-up')
    out = b''.join(k.written.get(CHILD_W, []))
    if set(k.written) - {CHILD_W}:
        return fail('C19:forkserver-child:status-written-to-the-wrong-descriptor')
    exp = fs.UNSIGNED_STRUCT.pack(k.pid) + (fs.UNSIGNED_STRUCT.pack(value) if outcome == 0 else b'')
    if out != exp:
        # the parent reads the pid, later the exit code, from this pipe (popen_forkserver.Popen); a child that failed before it had a
        # code writes none, which the parent reports as 255
        return fail('C19:forkserver-child:status-pipe-does-not-carry-pid-then-exit-code')
    if want and outcome == 0 and len(k.written.get(CHILD_W, [])) > 2:
        return False
    return True


def h_forkserver_serve(code: int) -> bool:
    """
    pre: 0 <= code < CODEMAX
    post: _
    """
    try:
        return _fs_serve(code, False)
    except Prune:
        return True


def h_forkserver_serve_twin(code: int) -> bool:
    """
    pre: 0 <= code < CODEMAX
    post: _
    """
    try:
        return _fs_serve(code, True)
    except Prune:
        return True

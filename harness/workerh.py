"""The worker harness: the real billiard.pool.Worker (workloop, __call__,
_do_exit, _make_child_methods, _ensure_messages_consumed) over queue stubs,
with a *symbolic crash point* at which a signal handler of the real code runs.

workloop is re-compiled from its current source with a call to
__vp_point__() inserted before every statement (AST rewrite, regenerated on
every run and validated against the original on concrete scripts), so that a
signal can be delivered between any two statements, exactly as CPython runs a
Python-level handler between bytecodes.
"""
import ast
import collections
import inspect
import textwrap

import billiard.pool as bp
import billiard.common as bc
import pickle as _pickle


def _deep_realize(x):
    try:
        from crosshair.tracers import is_tracing
        if is_tracing():
            from crosshair.core import deep_realize
            return deep_realize(x)
    except ImportError:
        pass
    return x

from harness.hbase import Prune, trace, cheap_einfo, untraced

bp.error = lambda *a, **k: None
bp.debug = lambda *a, **k: None
bp.warning = lambda *a, **k: None


class Exited(BaseException):
    """os._exit(code) was called"""

    def __init__(self, code):
        BaseException.__init__(self, code)
        self.code = code


class TaskBase(BaseException):
    """a BaseException raised by task code"""


class End:
    def __init__(self, fd):
        self.fd = fd
        self.closed = False

    def fileno(self):
        return self.fd

    def close(self):
        self.closed = True

    def send(self, o):
        pass

    def recv(self):
        pass
    send_offset = None


class Ctl:
    """crash-point controller"""

    def __init__(self, sigat, handler):
        self.n = 0
        self.sigat = sigat
        self.handler = handler
        self.fired = False
        self.fired_at = None
        self.where = None
        self.in_task = False
        self.bodies = []           # job ids whose task body was entered
        self.bodies_after_sig = 0
        self.clock = 100
        self.mem = []
        self.cur_job = None
        self.sig_job = None        # job whose body was running when the signal arrived
        self.swallowed = False     # the task itself caught the signal's exception at its raise point
        self.unloadable = []       # messages the worker sent that the parent cannot unpickle (exception class names)
        self.arrived = {}          # job id -> instant at which the request reached the worker (it had been waiting until then)
        self.entered = {}          # job id -> instant at which the task body was entered

    def point(self, where):
        self.n += 1
        if self.n == self.sigat and not self.fired:
            self.fired = True
            self.fired_at = self.n
            self.where = where
            self.was_in_task = self.in_task
            self.sig_job = self.cur_job if self.in_task else None
            trace('signal delivered at point', self.n, where)
            self.handler()

    def now(self):
        self.clock += 1
        return self.clock


class Inq:
    get_payload = None

    def __init__(self, tasks, ctl, sentinel=True):
        self._reader = End(3)
        self._writer = End(4)
        self.tasks = collections.deque(tasks)
        self.ctl = ctl
        self.sentinel = sentinel
        self._reader.poll = self.poll
        self.gets = 0

    def poll(self, t=0):
        self.ctl.point('poll')
        return True

    def get(self):
        self.ctl.point('get')
        self.gets += 1
        if not self.tasks:
            if self.sentinel:
                return None
            raise EOFError()
        t = self.tasks.popleft()
        self.ctl.clock += 10       # the worker had been waiting for this request: time passed before it arrived
        try:
            self.ctl.arrived[t[1][0]] = self.ctl.clock
        except Exception:
            pass
        return t


class Synq:
    """answers of the parent on the SYN channel, one per accepted job"""
    get_payload = None

    def __init__(self, answers, ctl):
        self._reader = End(7)
        self._writer = End(8)
        self.answers = collections.deque(answers)   # (silent_polls, ACK|NACK)
        self.ctl = ctl
        self._reader.poll = self.poll
        self.silence = None

    def poll(self, t=0):
        self.ctl.point('synpoll')
        if not self.answers:
            raise Prune()
        if self.silence is None:
            self.silence = self.answers[0][0]
        if self.silence > 0:
            self.silence -= 1
            return False
        return True

    def get(self):
        self.silence = None
        return (self.answers.popleft()[1], ())


class Outq:
    def __init__(self, ctl):
        self._reader = End(5)
        self._writer = End(6)
        self.msgs = []
        self.ctl = ctl
        self.fail_next_ready = False

    def put(self, m):
        self.ctl.point('put')
        # the message really crosses a pipe: it is pickled (outside the tracer: nothing symbolic is inside a message)
        with untraced():
            blob = None
            try:
                blob = _pickle.dumps(m)
            except ValueError as exc:
                # under CrossHair repr() may hand out proxy strings that hold solver terms ("ctypes objects containing
                # pointers cannot be pickled"): an artefact of the tracer, not of the message - any other failure counts
                if 'ctypes' not in str(exc):
                    raise
            if blob is not None:
                # ... and the parent's result handler unpickles it: a message the worker could send but the parent cannot read
                # never resolves its job
                try:
                    _pickle.loads(blob)
                except Exception as exc:
                    self.ctl.unloadable.append(type(exc).__name__)
        self.msgs.append(m)
        self.ctl.point('put-done')


class NeedsTwo(Exception):
    """an exception class whose constructor needs more arguments than it hands to Exception.__init__ (its default pickling
    rebuilds it from .args alone)"""

    def __init__(self, a, b):
        super().__init__(a)
        self.b = b


class WontPickle(Exception):
    """serialisation failures come in any exception class"""


class Unpicklable:
    def __repr__(self):
        return '<Unpicklable>'

    def __reduce__(self):
        raise WontPickle('this value cannot be serialised')

    def __copy__(self):
        return self            # (CrossHair's contract enforcement copies arguments)

    def __deepcopy__(self, memo):
        return self


class UnpicklableNoRepr(Unpicklable):
    """cannot be serialised and cannot even be shown (a half-built object, a proxy whose peer is gone ...)"""

    def __repr__(self):
        raise RuntimeError('this value cannot be shown either')


class Counter:
    def __init__(self, v=0):
        self.value = v


def task(ctl, jid, kind, catch=False):
    ctl.bodies.append(jid)
    ctl.entered.setdefault(jid, ctl.clock)
    if ctl.fired:
        ctl.bodies_after_sig += 1
    ctl.in_task = True
    ctl.cur_job = jid
    try:
        try:
            ctl.point('task')
            if kind == 1:
                raise ValueError(('boom', jid))
            if kind == 2:
                raise TaskBase(('base', jid))
            if kind == 4:
                _sys.exit(3)                  # the task itself calls sys.exit(3) (inside Worker.__call__ that is the worker's own wrapper): no termination signal is involved
            if kind == 5:
                raise KeyboardInterrupt()
            if kind == 6:
                raise NeedsTwo(('needs', jid), 'b')
        except BaseException:
            if not catch:
                raise
            if ctl.fired and ctl.where == 'task' and ctl.sig_job == jid:
                ctl.swallowed = True
            ctl.point('task-except')      # the task's own exception handler
            return ('caught', jid)
        if kind == 3:
            return Unpicklable()
        if kind == 7:
            return UnpicklableNoRepr()
        return ('ok', jid)
    finally:
        ctl.in_task = False


# ---------------------------------------------------------------------------
# statement-level instrumentation of Worker.workloop

class _Instr(ast.NodeTransformer):
    def __init__(self):
        self.count = 0

    def _wrap(self, body):
        out = []
        for st in body:
            st = self.visit(st)
            self.count += 1
            call = ast.Expr(ast.Call(ast.Name('__vp_point__', ast.Load()),
                                     [ast.Constant('L%d' % getattr(st, 'lineno', 0))], []))
            out.append(ast.copy_location(call, st))
            out.append(st)
        return out

    def visit_FunctionDef(self, node):
        if node.name == 'workloop':
            node.body = self._wrap(node.body)
        return node       # nested helper functions are left alone (only workloop's own statements)

    def generic_visit(self, node):
        for field in ('body', 'orelse', 'finalbody'):
            b = getattr(node, field, None)
            if isinstance(b, list) and b and isinstance(b[0], ast.stmt):
                setattr(node, field, self._wrap(b))
        if isinstance(node, ast.Try):
            for h in node.handlers:
                h.body = self._wrap(h.body)
        return node


def instrumented_workloop():
    src = textwrap.dedent(inspect.getsource(bp.Worker.workloop))
    tree = ast.parse(src)
    tr = _Instr()
    tree = tr.visit(tree)
    ast.fix_missing_locations(tree)
    ns = {}
    glb = dict(bp.__dict__)
    glb['__vp_point__'] = lambda where: CURRENT[0].point(where) if CURRENT[0] is not None else None
    exec(compile(tree, '<instrumented Worker.workloop>', 'exec'), glb, ns)
    return ns['workloop'], tr.count, glb


CURRENT = [None]
WORKLOOP_I, NPOINTS_STATIC, _GLB = instrumented_workloop()


class FakeOSW:
    def __init__(self, real):
        self._real = real

    def __getattr__(self, name):
        return getattr(self._real, name)

    def _exit(self, code):
        raise Exited(code)

    def getpid(self):
        return 4242


class FakeTimeW:
    def __init__(self, real):
        self._real = real
        self.sleeps = []

    def __getattr__(self, name):
        return getattr(self._real, name)

    def sleep(self, s):
        self.sleeps.append(s)


import os as _os
import time as _time
import sys as _sys


def install(ctl):
    """bind the worker-side environment of billiard.pool / billiard.common"""
    CURRENT[0] = ctl
    cheap_einfo()
    bc._should_have_exited[0] = False
    bc.maybe_setsignal = lambda *a: None
    fo = FakeOSW(_os)
    ft = FakeTimeW(_time)
    bp.os = fo
    bc.os = fo
    bp.time = ft
    _GLB['os'] = fo
    _GLB['time'] = ft
    _GLB['error'] = bp.error
    _GLB['debug'] = bp.debug
    _GLB['warning'] = bp.warning
    bp.mem_rss = lambda: ctl.mem.pop(0) if ctl.mem else 0
    _GLB['mem_rss'] = bp.mem_rss
    return ft


def make_worker(tasks, ctl, maxtasks=None, synq_answers=None, counter=None, on_exit=None,
                instrumented=True, sentinel=True, max_memory=None):
    inq = Inq(tasks, ctl, sentinel)
    outq = Outq(ctl)
    synq = Synq(synq_answers, ctl) if synq_answers is not None else None
    wk = bp.Worker(inq, outq, synq, maxtasks=maxtasks, on_exit=on_exit,
                   on_ready_counter=counter, max_memory_per_child=max_memory)
    if instrumented:
        import types
        base = types.MethodType(WORKLOOP_I, wk)
    else:
        base = wk.workloop

    def workloop(debug=bp.debug, now=None, pid=None):
        # the loop's default clock is time.monotonic, bound when the function was defined; CrossHair models that call as a
        # symbolic float, which made the ACK's pickling take paths a native replay never takes ("does not reproduce natively").
        # The acceptance time comes from the controller's clock instead.
        return base(debug=debug, now=now or ctl.now, pid=pid)
    wk.workloop = workloop
    wk.after_fork = lambda: None
    return wk, inq, outq, synq


def check_grammar(msgs, nacked, pid, ctl):
    """(ACK_j (READY_j)?)* ; READY_j present unless j was NACKed or the loop
    was left; returns (ok, reason, completed)"""
    i = 0
    done = 0
    n = len(msgs)
    while i < n:
        m = msgs[i]
        if m[0] != bp.ACK:
            return False, 'not-ACK-first', done
        j = m[1][0]
        if m[1][3] != pid:
            return False, 'ACK-wrong-pid', done
        if i + 1 < n and msgs[i + 1][0] == bp.READY:
            if msgs[i + 1][1][0] != j:
                return False, 'READY-for-other-job', done
            if j in nacked:
                return False, 'READY-for-NACKed-job', done
            done += 1
            i += 2
        else:
            i += 1
            if i < n and j not in nacked:
                return False, 'next-job-taken-without-READY', done
    return True, None, done


def validate_instrumentation():
    """the instrumented loop with a hook that never fires behaves like the original"""
    cases = 0
    for kinds in [(0,), (1, 0), (2, 3, 0), (3, 3), (0, 0, 0)]:
        for mt in (None, 1, 2):
            res = []
            for instr in (False, True):
                ctl = Ctl(0, lambda: None)
                install(ctl)
                tasks = [(bp.TASK, (100 + j, None, task, (ctl, 100 + j, k), {})) for j, k in enumerate(kinds)]
                wk, inq, outq, synq = make_worker(tasks, ctl, maxtasks=mt, counter=Counter(99), instrumented=instr)
                wk._make_child_methods()
                try:
                    code = ('ret', wk.workloop(now=ctl.now, pid=4242))
                except SystemExit as e:
                    code = ('exit', e.code)
                res.append((code, [(m[0], m[1][0], m[1][2][0] if m[0] == bp.READY else None) for m in outq.msgs], list(ctl.bodies)))
                cases += 1
            if res[0] != res[1]:
                return False, 'instrumented workloop diverges on %r maxtasks=%r: %r vs %r' % (kinds, mt, res[0], res[1]), cases
    return True, None, cases


"""C07 - close() then join() drains all work and leaves no processes behind
(and the parent side of C08: terminate()).

Real code: Pool.close, Pool.join, TaskHandler.body/tell_others,
ResultHandler.finish_at_shutdown (through on_stop_not_started),
_join_exited_workers(shutdown=True), Pool.terminate/_terminate_pool/
_help_stuff_finish, apply_async/map_async/imap after close.
The helper threads are played by the harness on one thread: the task feeder's
turn is the real TaskHandler.body; while the result handler sits in poll() the
workers move (symbolic choice of who moves); while join() waits for a worker,
that worker runs to its exit.
"""
from typing import List
import billiard.pool as bp
from harness.hbase import fail, tier, Prune, ND, PART, NPART, untraced, NDCode, CODEMAX
from harness import world as W

K = tier(3, 4)
KINDS = ('apply', 'map', 'imap', 'imapu')
LWT = 10


Hang = W.Hang


def _scenario(kind, nproc, ev, want, replaced=False, quota=0):
    w = W.World()
    with untraced():
        p = w.make_pool(nproc, lost_worker_timeout=LWT, **({'maxtasksperchild': quota} if quota else {}))
    rec = ':recycling-pool' if quota else ''
    if replaced:
        # one worker of the initial set has gone and been replaced before the work is submitted: the replacement is a worker
        # like any other (its consumed results are credited to it, it gets its sentinel)
        w.w_exit(p._pool[0], 0)
        w.tick()
        if len(p._pool) != nproc:
            raise Prune()
        if nproc == 1:
            # ... and the pool was grown afterwards: every worker of the pool as it is at close() gets its sentinel
            p.grow(1)
            w.tick()
            if len(p._pool) != 2:
                raise Prune()
    nd = ND(ev)
    obs = []
    expect = []
    if kind == 'apply':
        for t in ('a0', 'a1', 'a2'):
            obs.append(W.Observer(p.apply_async(W.val, (t,)), 'apply'))
        expect = [('r', t) for t in ('a0', 'a1', 'a2')]
    else:
        items = ['m0', 'm1', 'm2']
        if kind == 'map':
            h = p.map_async(W.val, items, chunksize=1)
            W.int_timeout(h)
        elif kind == 'imap':
            h = p.imap(W.val, items)
        else:
            h = p.imap_unordered(W.val, items)
        obs.append(W.Observer(h, kind))
        expect = [('r', t) for t in items]
    # progress before close(): any prefix
    fed = False
    for _ in range(K):
        e = nd.draw(0, 3)
        if e < 2:
            if e >= len(p._pool):
                raise Prune()
            x = p._pool[e]
            if x.state == 'idle':
                if not p._inqueue.q:
                    raise Prune()
                w.w_take(x)
            elif x.state == 'busy':
                w.w_done(x)
            elif x.state == 'draining':
                w.w_try_recycle(x, True)         # reached its quota: leaves (its results consumed, or after the guard)
            else:
                raise Prune()
        elif e == 2:
            w.rh()
        else:
            if fed or kind == 'apply':
                raise Prune()
            w.feed()
            fed = True
    # ---- close() ---------------------------------------------------------------
    p.close()
    if p.apply_async(W.val, ('late',)) is not None or p.map_async(W.val, ['late']) is not None \
            or p.imap(W.val, ['late']) is not None or p.imap_unordered(W.val, ['late']) is not None:
        return fail('C07:J3:job-accepted-after-close')
    nq = len(p._inqueue.q)
    # the task feeder's turn: the real body, up to and including tell_others
    th = p._task_handler
    th.body()
    th.stop = lambda timeout=None: None            # that thread has ended
    sentinels = sum(1 for m in p._inqueue.q if m is None)
    if sentinels != len(p._pool):
        return fail('C07:J4:not-one-sentinel-per-worker')
    if sum(1 for m in p._outqueue.q if m is None) != 1:
        return fail('C07:J4:not-one-sentinel-for-the-result-handler')
    # the sentinel for the result handler is consumed by its main loop before finish_at_shutdown takes over
    w.drain_until_sentinel()
    polls = [0]

    def idle(timeout):
        # the result handler sleeps in poll(): one worker moves (symbolic choice), a second of clock passes
        polls[0] += 1
        if polls[0] > 40:
            raise Hang()
        live = [x for x in p._pool if x.exitcode is None]
        movable = [x for x in live if x.state in ('busy', 'leaving', 'draining') or (x.state == 'idle' and p._inqueue.q)]
        if movable:
            x = movable[nd.draw(0, 1) % len(movable)] if nd.left() > 0 else movable[0]
            if x.state == 'idle':
                w.w_take(x)
            elif x.state == 'busy':
                w.w_done(x)
            elif x.state == 'draining':
                w.w_try_recycle(x, True)
            else:
                w.w_leave(x)
        w.now = w.now + 1
    p._outqueue._reader.idle_hook = idle

    def on_join(proc):
        # join() blocks on this worker: it runs to its exit
        n = 0
        while proc.exitcode is None:
            n += 1
            if n > 20:
                raise Hang()
            if proc.state == 'idle':
                if not p._inqueue.q:
                    raise Hang()           # nothing will ever make it exit
                w.w_take(proc)
            elif proc.state == 'busy':
                w.w_done(proc)
            elif proc.state == 'leaving':
                w.w_leave(proc)
            elif proc.state == 'draining':
                w.w_try_recycle(proc, True)
            else:
                raise Hang()
    w.join_hook = on_join
    try:
        p.join()
    except Hang:
        return fail('C07:J2:join-hangs:' + kind + rec)
    finally:
        p._outqueue._reader.idle_hook = None
        w.join_hook = None
    if want:
        return False
    got = []
    for o in obs:
        o.observe()
        if o.lost:
            return fail('C07:J2:job-failed-at-shutdown:' + kind + rec)
        if not o.complete():
            return fail('C07:J2:job-unresolved-after-join:' + kind + rec)
        got.extend(o.values())
    if sorted(got) != sorted(expect):
        return fail('C07:J2:results-differ:' + kind)
    if any(x.exitcode is None for x in w.procs):
        return fail('C07:worker-alive-after-join')
    if w.guard_waits:
        return fail('C07:J1:join-waited-out-the-30s-consumption-guard:' + kind)
    return True


def h_close_join(ev: List[int]) -> bool:
    """
    pre: len(ev) == K + 12
    post: _
    """
    try:
        return _scenario(KINDS[PART % 4], 1 + (PART // 4) % 2, ev, False, (PART // 8) % 2 == 1)
    except Prune:
        return True


def h_close_join_recycling(ev: List[int]) -> bool:
    """
    pre: len(ev) == K + 12
    post: _
    """
    # a pool that recycles its workers (per-child quota of 1) is closed with more jobs pending than its workers have quota left
    try:
        return _scenario('apply', 1 + PART % 2, ev, False, False, quota=1)
    except Prune:
        return True


def h_close_join_twin(ev: List[int]) -> bool:
    """
    pre: len(ev) == K + 12
    post: _
    """
    try:
        return _scenario(KINDS[PART % 4], 1 + (PART // 4) % 2, ev, True, (PART // 8) % 2 == 1)
    except Prune:
        return True


# ---------------------------------------------------------------------------
# C08, parent side: terminate()

def _terminate(kind, nproc, ev, want, replaced=False):
    w = W.World()
    p = w.make_pool(nproc, lost_worker_timeout=LWT, keep_finalizer=True)
    if replaced:
        # one worker of the initial set has gone and been replaced before terminate(): the replacement is terminated like any other
        w.w_exit(p._pool[0], 0)
        w.tick()
        if len(p._pool) != nproc:
            p._terminate.cancel()
            raise Prune()
    try:
        return _terminate_body(w, p, kind, nproc, ev, want)
    finally:
        p._outqueue._reader.idle_hook = None
        w.join_hook = None
        p._terminate.cancel()


def _terminate_body(w, p, kind, nproc, ev, want):
    nd = ND(ev)
    obs = []
    njobs = 3 - nd.draw(0, 3 if kind == 'apply' else 2)       # how much work is there when terminate() comes: none ... three pieces
    if kind == 'apply':
        for t in ('a0', 'a1', 'a2')[:njobs]:
            obs.append(W.Observer(p.apply_async(W.val, (t,)), 'apply'))
    else:
        items = ['m0', 'm1', 'm2'][:njobs]
        if kind == 'map':
            h = p.map_async(W.val, items, chunksize=1)
            W.int_timeout(h)
        elif kind == 'imap':
            h = p.imap(W.val, items)
        else:
            h = p.imap_unordered(W.val, items)
        obs.append(W.Observer(h, kind))
        w.feed()
    for _ in range(K):
        e = nd.draw(0, 2)
        if e < 2:
            if e >= len(p._pool):
                raise Prune()
            x = p._pool[e]
            if x.state == 'idle':
                if not p._inqueue.q:
                    raise Prune()
                w.w_take(x)
            elif x.state == 'busy':
                w.w_done(x)
            else:
                raise Prune()
        else:
            w.rh()
    before = []
    for o in obs:
        o.observe()
        before.append(list(o.outcomes))
    busy = [x for x in p._pool if x.state == 'busy']
    polls = [0]

    def idle(timeout):
        polls[0] += 1
        if polls[0] > 40:
            raise Hang('result handler still polling after 40 s')
        for x in w.procs:
            if x.exitcode is None and x.got_term and x.obeys_term:
                x.die(-15)       # a worker honours TERM also in the middle of a task (C08 worker side, harness/c03.py)
        w.now = w.now + 1
    p._outqueue._reader.idle_hook = idle

    def on_join(proc):
        # a worker that was told to terminate exits (worker side of C08: harness/c03.py)
        if proc.got_term and proc.obeys_term:
            proc.die(-15)
        else:
            raise Hang('join() on a worker that was never told to terminate')
    w.join_hook = on_join
    try:
        try:
            p.terminate()
        except Hang as exc:
            from harness.hbase import trace
            trace('hang:', exc)
            return fail('C08:terminate-does-not-return:' + kind)
        if want and busy:
            return False
        if any(x.exitcode is None for x in w.procs):
            return fail('C08:worker-alive-after-terminate')
        nsig = len(w.signals)
        for o, b in zip(obs, before):
            if o.kind in ('apply', 'map') and b:
                if (o.h._success, o.h._value) != b[0]:
                    return fail('C08:result-delivered-before-terminate-changed')
        try:
            p.terminate()           # twice is harmless
            p._terminate()          # and so is the finalizer (garbage collection)
        except Hang:
            return fail('C08:second-terminate-hangs')
        except Exception as exc:
            return fail('C08:second-terminate-raises:' + type(exc).__name__)
        if len(w.signals) != nsig:
            return fail('C08:second-terminate-signals-again')
        if not (p._inqueue.closed and p._outqueue.closed):
            return fail('C08:queues-not-closed')
        return True
    finally:
        p._outqueue._reader.idle_hook = None
        w.join_hook = None
        p._terminate.cancel()


def h_terminate(ev: List[int]) -> bool:
    """
    pre: len(ev) == K + 1
    post: _
    """
    try:
        return _terminate(KINDS[PART % 4], 1 + (PART // 4) % 2, ev, False, (PART // 8) % 2 == 1)
    except Prune:
        return True


def h_terminate_twin(ev: List[int]) -> bool:
    """
    pre: len(ev) == K + 1
    post: _
    """
    try:
        return _terminate(KINDS[PART % 4], 1 + (PART // 4) % 2, ev, True, (PART // 8) % 2 == 1)
    except Prune:
        return True


# ---------------------------------------------------------------------------
# a worker dies in task code after close(): its job still fails with WorkerLostError and join() returns

def _death_after_close(lwt, code, want):
    from billiard.exceptions import WorkerLostError
    nd = NDCode(code)
    nproc = 1 + nd.draw(0, 1)
    w = W.World()
    p = w.make_pool(nproc, lost_worker_timeout=lwt)
    obs = [W.Observer(p.apply_async(W.val, ('a%d' % i,)), 'apply') for i in range(nproc)]
    for x in p._pool:
        w.w_take(x)
    w.drain_results()
    victim = p._pool[nd.draw(0, nproc - 1)]
    status = (-9, -15, 1, 0)[nd.draw(0, 3)]
    p.close()
    th = p._task_handler
    th.body()
    th.stop = lambda timeout=None: None
    w.drain_until_sentinel()
    polls = [0]
    died = [False]

    def idle(timeout):
        polls[0] += 1
        if polls[0] > 60:
            raise Hang()
        if not died[0]:
            died[0] = True
            w.w_exit(victim, status)            # dies in the middle of its task
        else:
            for x in p._pool:
                if x.exitcode is None and x.state == 'busy':
                    w.w_done(x)
                    break
                if x.exitcode is None and x.state == 'idle' and p._inqueue.q:
                    w.w_take(x)
                    break
                if x.exitcode is None and x.state == 'leaving':
                    w.w_leave(x)
                    break
        w.now = w.now + 1
    p._outqueue._reader.idle_hook = idle

    def on_join(proc):
        n = 0
        while proc.exitcode is None:
            n += 1
            if n > 20:
                raise Hang()
            if proc.state == 'idle' and p._inqueue.q:
                w.w_take(proc)
            elif proc.state == 'busy':
                w.w_done(proc)
            elif proc.state == 'leaving':
                w.w_leave(proc)
            else:
                raise Hang()
    w.join_hook = on_join
    try:
        p.join()
    except Hang:
        return fail('C07:J2:join-hangs-after-worker-death')
    finally:
        p._outqueue._reader.idle_hook = None
        w.join_hook = None
    if want:
        return False
    for i, o in enumerate(obs):
        o.observe()
        mine = p._pool and False
        if not o.complete():
            return fail('C07:J2:job-of-dead-worker-never-resolved-after-close' + (':lost-worker-timeout-longer-than-the-5s-shutdown-grace' if lwt >= 5 else ''))
    lost = [o for o in obs if o.lost]
    if len(lost) != 1:
        return fail('C07:J2:wrong-number-of-lost-jobs-after-close')
    for o in obs:
        if not o.lost and o.outcomes != [(True, ('r', 'a%d' % obs.index(o)))]:
            return fail('C07:J2:other-job-affected-by-death-after-close')
    return True


def h_death_after_close(lwt: int, code: int) -> bool:
    """
    pre: 1 <= lwt <= 12 and 0 <= code < CODEMAX
    post: _
    """
    try:
        return _death_after_close(lwt, code, False)
    except Prune:
        return True


def h_death_after_close_twin(lwt: int, code: int) -> bool:
    """
    pre: 1 <= lwt <= 12 and 0 <= code < CODEMAX
    post: _
    """
    try:
        return _death_after_close(lwt, code, True)
    except Prune:
        return True


# ---------------------------------------------------------------------------
# close() / terminate() landing in the middle of a supervision pass (through the public process callbacks)

def _midtick(code, want):
    nd = NDCode(code)
    which = ('close', 'terminate')[PART % 2]
    w = W.World()
    armed = [False]
    fired = [False]
    holder = {}

    close_where = nd.draw(0, 2) if which == 'close' else 0       # on_process_down / on_process_up / inside Process.start() of a replacement
    close_on_up = close_where == 1
    fed_in_hook = [False]

    def in_start(proc):
        # the user closes the pool while the supervisor thread is inside Process.start() of a replacement; the task-feeder thread
        # reacts at once: one sentinel per worker it can see
        if which == 'close' and close_where == 2 and armed[0] and not fired[0]:
            fired[0] = True
            holder['p'].close()
            holder['started_at_close'] = w.started
            holder['p']._task_handler.body()
            fed_in_hook[0] = True

    def on_down(worker):
        if which == 'close' and close_where == 0 and armed[0] and not fired[0]:
            fired[0] = True
            holder['p'].close()               # the user closes the pool while the supervisor is between reaping and replacing
            holder['started_at_close'] = w.started

    def on_up(worker):
        if which == 'terminate' and armed[0] and not fired[0]:
            fired[0] = True
            holder['p'].terminate()           # terminate() while the supervisor is starting replacements
        if which == 'close' and close_on_up and armed[0] and not fired[0]:
            fired[0] = True
            holder['p'].close()               # ... or right after the first replacement of the pass was started
            holder['started_at_close'] = w.started
    p = w.make_pool(3, lost_worker_timeout=LWT, on_process_down=on_down, on_process_up=on_up, keep_finalizer=(which == 'terminate'))
    holder['p'] = p
    try:
        obs = W.Observer(p.apply_async(W.val, ('a0',)), 'apply')
        busy = p._pool[2]
        w.w_take(busy)
        w.drain_results()
        statuses = (0, 155, -9, 1)
        nexit = 1 + nd.draw(0, 1)
        for k in range(nexit):
            w.w_exit(p._pool[k], statuses[nd.draw(0, 3)])
        polls = [0]

        def idle(timeout):
            polls[0] += 1
            if polls[0] > 60:
                raise Hang('result handler still polling')
            for x in w.procs:
                if x.exitcode is None and x.got_term and x.obeys_term:
                    x.die(-15)
            for x in p._pool:
                if x.exitcode is None and x.state == 'busy' and not x.got_term:
                    w.w_done(x)
                    break
                if x.exitcode is None and x.state == 'idle' and p._inqueue.q:
                    w.w_take(x)
                    break
                if x.exitcode is None and x.state == 'leaving':
                    w.w_leave(x)
                    break
            w.now = w.now + 1

        def on_join(proc):
            n = 0
            while proc.exitcode is None:
                n += 1
                if n > 20:
                    raise Hang('join() on a worker that never exits')
                if proc.got_term and proc.obeys_term:
                    proc.die(-15)
                elif proc.state == 'idle' and p._inqueue.q:
                    w.w_take(proc)
                elif proc.state == 'busy':
                    w.w_done(proc)
                elif proc.state == 'leaving':
                    w.w_leave(proc)
                else:
                    raise Hang('join() on an idle worker that got no sentinel')
        p._outqueue._reader.idle_hook = idle
        w.join_hook = on_join
        armed[0] = True
        started = w.started
        w.start_hook = in_start
        try:
            w.tick()
        except Hang as exc:
            return fail('C08:terminate-does-not-return:mid-tick')
        if not fired[0]:
            raise Prune()
        if want:
            return False
        if which == 'close':
            if w.started != holder['started_at_close']:
                return fail('C07:worker-started-after-close')
            th = p._task_handler
            if not fed_in_hook[0]:
                th.body()
            th.stop = lambda timeout=None: None
            w.drain_until_sentinel()
            try:
                p.join()
            except Hang as exc:
                return fail('C07:J2:join-hangs:after-close-during-supervision' + (':close-inside-Process.start' if close_where == 2 else ''))
            if any(x.exitcode is None for x in w.procs):
                return fail('C07:worker-alive-after-join')
            if obs.observe().outcomes != [(True, ('r', 'a0'))]:
                return fail('C07:J2:results-differ:apply')
        else:
            if w.started > started + 1:
                return fail('C08:worker-started-after-terminate')
            if any(x.exitcode is None for x in w.procs):
                return fail('C08:worker-alive-after-terminate')
        return True
    finally:
        p._outqueue._reader.idle_hook = None
        w.join_hook = None
        w.start_hook = None
        p._terminate.cancel()


def h_midtick(code: int) -> bool:
    """
    pre: 0 <= code < CODEMAX
    post: _
    """
    try:
        return _midtick(code, False)
    except Prune:
        return True


def h_midtick_twin(code: int) -> bool:
    """
    pre: 0 <= code < CODEMAX
    post: _
    """
    try:
        return _midtick(code, True)
    except Prune:
        return True


# ---------------------------------------------------------------------------
# C08, parent side, threaded pool: terminate() while the task-feeder thread still has a job to feed.  The helper threads are
# played by the harness (PoolThread.start is a no-op; a thread's body runs when the parent blocks on the task queue's read
# lock - World.blocked_hook - or joins the thread, whichever comes first).

def _terminate_threaded(code, want):
    nd = NDCode(code)
    nproc = 1 + nd.draw(0, 1)
    nfed = nd.draw(0, 2)               # apply jobs already fed to the workers' pipe
    unfed = nd.flag()                  # one more job is still in the feeder's own queue when terminate() comes
    w = W.World()
    played = {}
    saved = (bp.PoolThread.start, bp.PoolThread.join, bp.PoolThread.is_alive)

    def play(th):
        if isinstance(th, bp.TaskHandler) and 'task' not in played:
            played['task'] = 'running'
            th.body()
            played['task'] = 'done'
            return True
        if isinstance(th, bp.ResultHandler) and 'result' not in played:
            played['result'] = 'running'
            th.finish_at_shutdown()
            played['result'] = 'done'
            return True
        return False

    def alive(th):
        key = 'task' if isinstance(th, bp.TaskHandler) else 'result' if isinstance(th, bp.ResultHandler) else None
        return bool(getattr(th, '_was_started', False)) and key is not None and played.get(key) != 'done'
    bp.PoolThread.start = lambda self, *a, **k: setattr(self, '_was_started', True)
    bp.PoolThread.join = lambda self, timeout=None: play(self) and None
    bp.PoolThread.is_alive = alive
    p = None
    try:
        p = w.make_pool(nproc, threads=True, lost_worker_timeout=LWT, keep_finalizer=True)
        obs = []
        for k in range(nfed):
            obs.append(W.Observer(p.apply_async(W.val, ('a%d' % k,)), 'apply'))
        w.feed()
        for _ in range(2):
            e = nd.draw(0, 2)
            if e < 2:
                if e >= len(p._pool):
                    raise Prune()
                x = p._pool[e]
                if x.state == 'idle' and p._inqueue.q:
                    w.w_take(x)
                elif x.state == 'busy':
                    w.w_done(x)
                else:
                    raise Prune()
            else:
                w.rh()
        if unfed:
            obs.append(W.Observer(p.apply_async(W.val, ('late',)), 'apply'))     # stays in p._taskqueue: the feeder has not run yet
        polls = [0]

        def idle(timeout):
            polls[0] += 1
            if polls[0] > 40:
                raise Hang('result handler still polling after 40 s')
            for x in w.procs:
                if x.exitcode is None and x.got_term and x.obeys_term:
                    x.die(-15)
            w.now = w.now + 1
        p._outqueue._reader.idle_hook = idle

        def on_join(proc):
            if proc.got_term and proc.obeys_term:
                proc.die(-15)
            else:
                raise Hang('join() on a worker that was never told to terminate')
        w.join_hook = on_join
        w.blocked_hook = lambda: play(p._task_handler)
        try:
            p.terminate()
        except Hang as exc:
            from harness.hbase import trace
            trace('hang:', exc)
            return fail('C08:terminate-does-not-return:threaded' + (':job-still-with-the-feeder' if unfed else ''))
        if want:
            return False if (unfed and played.get('task') == 'done') else True
        if any(x.exitcode is None for x in w.procs):
            return fail('C08:worker-alive-after-terminate')
        if played.get('task') != 'done':
            return fail('C08:task-feeder-thread-not-joined')
        return True
    finally:
        bp.PoolThread.start, bp.PoolThread.join, bp.PoolThread.is_alive = saved
        if p is not None:
            p._outqueue._reader.idle_hook = None
            p._terminate.cancel()
        w.join_hook = None
        w.blocked_hook = None


def h_terminate_threaded(code: int) -> bool:
    """
    pre: 0 <= code < CODEMAX
    post: _
    """
    try:
        return _terminate_threaded(code, False)
    except Prune:
        return True


def h_terminate_threaded_twin(code: int) -> bool:
    """
    pre: 0 <= code < CODEMAX
    post: _
    """
    try:
        return _terminate_threaded(code, True)
    except Prune:
        return True


# ---------------------------------------------------------------------------
# C08: the signal terminate() sends is the termination signal the workers hook.  A deployment may remap it
# (REMAP_SIGTERM=SIGQUIT: workers then hook SIGQUIT and IGNORE SIGTERM), so the real Popen.terminate must send
# common.TERM_SIGNAL - checked over a recording os.kill with the module-level signal rebound as the remapping does at import.

def h_terminate_signal(remap: bool, gone: bool) -> bool:
    """
    pre: True
    post: _
    """
    import signal as _signal
    import billiard.popen_fork as pf
    import billiard.common as bc
    want = _signal.SIGQUIT if remap else _signal.SIGTERM
    kills = []

    class FakeOS:
        def __getattr__(self, name):
            import os as _o
            return getattr(_o, name)

        def kill(self, pid, sig):
            kills.append((pid, sig))
            if gone:
                raise OSError(3, 'No such process')
    saved = (pf.os, pf.TERM_SIGNAL, bc.TERM_SIGNAL)
    pf.os = FakeOS()
    pf.TERM_SIGNAL = want
    bc.TERM_SIGNAL = want
    try:
        po = pf.Popen.__new__(pf.Popen)
        po.pid = 4242
        po.returncode = None
        po.sentinel = None
        po.terminate()
    finally:
        pf.os, pf.TERM_SIGNAL, bc.TERM_SIGNAL = saved
    if kills != [(4242, want)]:
        return fail('C08:terminate-sends-a-signal-other-than-the-termination-signal-the-workers-hook' + (':remapped' if remap else ''))
    return True

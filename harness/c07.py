"""C07 - close() then join() drains all work and leaves no processes behind
(and the parent side of C08: terminate()).

Real code: Pool.close, Pool.join, TaskHandler.body/tell_others,
ResultHandler.finish_at_shutdown (through on_stop_not_started),
_join_exited_workers(shutdown=True), Pool.terminate/_terminate_pool/
_help_stuff_finish, apply_async/map_async/imap after close.
The helper threads are played by the harness on one thread: the task feeder's
turn is the real TaskHandler.body; while the result handler sits in poll() the
workers move (symbolic choice of who moves); while join() waits for a worker,
that worker runs to its exit.
"""
from typing import List
import billiard.pool as bp
from harness.hbase import fail, tier, Prune, ND, PART, NPART, untraced
from harness import world as W

K = tier(3, 4)
KINDS = ('apply', 'map', 'imap', 'imapu')
LWT = 10


class Hang(Exception):
    pass


def _scenario(kind, nproc, ev, want):
    w = W.World()
    with untraced():
        p = w.make_pool(nproc, lost_worker_timeout=LWT)
    nd = ND(ev)
    obs = []
    expect = []
    if kind == 'apply':
        for t in ('a0', 'a1', 'a2'):
            obs.append(W.Observer(p.apply_async(W.val, (t,)), 'apply'))
        expect = [('r', t) for t in ('a0', 'a1', 'a2')]
    else:
        items = ['m0', 'm1', 'm2']
        if kind == 'map':
            h = p.map_async(W.val, items, chunksize=1)
            W.int_timeout(h)
        elif kind == 'imap':
            h = p.imap(W.val, items)
        else:
            h = p.imap_unordered(W.val, items)
        obs.append(W.Observer(h, kind))
        expect = [('r', t) for t in items]
    # progress before close(): any prefix
    fed = False
    for _ in range(K):
        e = nd.draw(0, 3)
        if e < 2:
            if e >= len(p._pool):
                raise Prune()
            x = p._pool[e]
            if x.state == 'idle':
                if not p._inqueue.q:
                    raise Prune()
                w.w_take(x)
            elif x.state == 'busy':
                w.w_done(x)
            else:
                raise Prune()
        elif e == 2:
            w.rh()
        else:
            if fed or kind == 'apply':
                raise Prune()
            w.feed()
            fed = True
    # ---- close() ---------------------------------------------------------------
    p.close()
    if p.apply_async(W.val, ('late',)) is not None or p.map_async(W.val, ['late']) is not None \
            or p.imap(W.val, ['late']) is not None or p.imap_unordered(W.val, ['late']) is not None:
        return fail('C07:J3:job-accepted-after-close')
    nq = len(p._inqueue.q)
    # the task feeder's turn: the real body, up to and including tell_others
    th = p._task_handler
    th.body()
    th.stop = lambda timeout=None: None            # that thread has ended
    sentinels = sum(1 for m in p._inqueue.q if m is None)
    if sentinels != len(p._pool):
        return fail('C07:J4:not-one-sentinel-per-worker')
    if sum(1 for m in p._outqueue.q if m is None) != 1:
        return fail('C07:J4:not-one-sentinel-for-the-result-handler')
    # the sentinel for the result handler is consumed by its main loop before finish_at_shutdown takes over
    w.drain_until_sentinel()
    polls = [0]

    def idle(timeout):
        # the result handler sleeps in poll(): one worker moves (symbolic choice), a second of clock passes
        polls[0] += 1
        if polls[0] > 40:
            raise Hang()
        live = [x for x in p._pool if x.exitcode is None]
        movable = [x for x in live if x.state in ('busy', 'leaving') or (x.state == 'idle' and p._inqueue.q)]
        if movable:
            x = movable[nd.draw(0, 1) % len(movable)] if nd.left() > 0 else movable[0]
            if x.state == 'idle':
                w.w_take(x)
            elif x.state == 'busy':
                w.w_done(x)
            else:
                w.w_leave(x)
        w.now = w.now + 1
    p._outqueue._reader.idle_hook = idle

    def on_join(proc):
        # join() blocks on this worker: it runs to its exit
        n = 0
        while proc.exitcode is None:
            n += 1
            if n > 20:
                raise Hang()
            if proc.state == 'idle':
                if not p._inqueue.q:
                    raise Hang()           # nothing will ever make it exit
                w.w_take(proc)
            elif proc.state == 'busy':
                w.w_done(proc)
            elif proc.state == 'leaving':
                w.w_leave(proc)
            else:
                raise Hang()
    w.join_hook = on_join
    try:
        p.join()
    except Hang:
        return fail('C07:J2:join-hangs:' + kind)
    finally:
        p._outqueue._reader.idle_hook = None
        w.join_hook = None
    if want:
        return False
    got = []
    for o in obs:
        o.observe()
        if o.lost:
            return fail('C07:J2:job-failed-at-shutdown:' + kind)
        if not o.complete():
            return fail('C07:J2:job-unresolved-after-join:' + kind)
        got.extend(o.values())
    if sorted(got) != sorted(expect):
        return fail('C07:J2:results-differ:' + kind)
    if any(x.exitcode is None for x in w.procs):
        return fail('C07:worker-alive-after-join')
    if w.guard_waits:
        return fail('C07:J1:join-waited-out-the-30s-consumption-guard:' + kind)
    return True


def h_close_join(ev: List[int]) -> bool:
    """
    pre: len(ev) == K + 12
    post: _
    """
    try:
        return _scenario(KINDS[PART % 4], 1 + (PART // 4) % 2, ev, False)
    except Prune:
        return True


def h_close_join_twin(ev: List[int]) -> bool:
    """
    pre: len(ev) == K + 12
    post: _
    """
    try:
        return _scenario(KINDS[PART % 4], 1 + (PART // 4) % 2, ev, True)
    except Prune:
        return True


# ---------------------------------------------------------------------------
# C08, parent side: terminate()

def _terminate(kind, nproc, ev, want):
    w = W.World()
    p = w.make_pool(nproc, lost_worker_timeout=LWT, keep_finalizer=True)
    try:
        return _terminate_body(w, p, kind, nproc, ev, want)
    finally:
        p._outqueue._reader.idle_hook = None
        w.join_hook = None
        p._terminate.cancel()


def _terminate_body(w, p, kind, nproc, ev, want):
    nd = ND(ev)
    obs = []
    if kind == 'apply':
        for t in ('a0', 'a1', 'a2'):
            obs.append(W.Observer(p.apply_async(W.val, (t,)), 'apply'))
    else:
        items = ['m0', 'm1', 'm2']
        if kind == 'map':
            h = p.map_async(W.val, items, chunksize=1)
            W.int_timeout(h)
        elif kind == 'imap':
            h = p.imap(W.val, items)
        else:
            h = p.imap_unordered(W.val, items)
        obs.append(W.Observer(h, kind))
        w.feed()
    for _ in range(K):
        e = nd.draw(0, 2)
        if e < 2:
            if e >= len(p._pool):
                raise Prune()
            x = p._pool[e]
            if x.state == 'idle':
                if not p._inqueue.q:
                    raise Prune()
                w.w_take(x)
            elif x.state == 'busy':
                w.w_done(x)
            else:
                raise Prune()
        else:
            w.rh()
    before = []
    for o in obs:
        o.observe()
        before.append(list(o.outcomes))
    busy = [x for x in p._pool if x.state == 'busy']
    polls = [0]

    def idle(timeout):
        polls[0] += 1
        if polls[0] > 40:
            raise Hang('result handler still polling after 40 s')
        for x in w.procs:
            if x.exitcode is None and x.got_term and x.obeys_term:
                x.die(-15)       # a worker honours TERM also in the middle of a task (C08 worker side, harness/c03.py)
        w.now = w.now + 1
    p._outqueue._reader.idle_hook = idle

    def on_join(proc):
        # a worker that was told to terminate exits (worker side of C08: harness/c03.py)
        if proc.got_term and proc.obeys_term:
            proc.die(-15)
        else:
            raise Hang('join() on a worker that was never told to terminate')
    w.join_hook = on_join
    try:
        try:
            p.terminate()
        except Hang as exc:
            from harness.hbase import trace
            trace('hang:', exc)
            return fail('C08:terminate-does-not-return:' + kind)
        if want and busy:
            return False
        if any(x.exitcode is None for x in w.procs):
            return fail('C08:worker-alive-after-terminate')
        nsig = len(w.signals)
        for o, b in zip(obs, before):
            if o.kind in ('apply', 'map') and b:
                if (o.h._success, o.h._value) != b[0]:
                    return fail('C08:result-delivered-before-terminate-changed')
        try:
            p.terminate()           # twice is harmless
            p._terminate()          # and so is the finalizer (garbage collection)
        except Hang:
            return fail('C08:second-terminate-hangs')
        except Exception as exc:
            return fail('C08:second-terminate-raises:' + type(exc).__name__)
        if len(w.signals) != nsig:
            return fail('C08:second-terminate-signals-again')
        if not (p._inqueue.closed and p._outqueue.closed):
            return fail('C08:queues-not-closed')
        return True
    finally:
        p._outqueue._reader.idle_hook = None
        w.join_hook = None
        p._terminate.cancel()


def h_terminate(ev: List[int]) -> bool:
    """
    pre: len(ev) == K
    post: _
    """
    try:
        return _terminate(KINDS[PART % 4], 1 + (PART // 4) % 2, ev, False)
    except Prune:
        return True


def h_terminate_twin(ev: List[int]) -> bool:
    """
    pre: len(ev) == K
    post: _
    """
    try:
        return _terminate(KINDS[PART % 4], 1 + (PART // 4) % 2, ev, True)
    except Prune:
        return True

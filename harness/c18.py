"""C18 - connection authentication is mutual and exact.

Real code: connection.deliver_challenge / answer_challenge, Listener.accept,
Client (transport classes replaced by in-memory message pairs).
os.urandom returns symbolic bytes; hmac.new is a stand-in that is injective on
(normalised key, message), where normalisation is HMAC's own zero padding of
short keys (collision-freedom of HMAC-MD5 is the assumption; the padding rule
is modelled).  In a native replay the real hmac module is used.
"""
import sys
import types
import os as _os
import billiard.connection as bc
from harness.hbase import fail, tier, Prune, REPLAY, realize, PART, NPART, NDCode, CODEMAX

KMAX = tier(2, 3)


class Suspend(BaseException):
    pass


class FakeHmacObj:
    def __init__(self, key, msg):
        self.key = key
        self.msg = msg

    def digest(self):
        k = self.key + b'\x00' * (KMAX + 1 - len(self.key))       # HMAC pads the key with zero bytes to its block size
        return b'H' + k + b'|' + self.msg


def fake_hmac():
    m = types.ModuleType('hmac')
    m.new = lambda key, msg, digestmod=None: FakeHmacObj(key, msg)
    return m


class Chan:
    """one side's view of the connection"""

    def __init__(self, incoming):
        self.incoming = list(incoming)      # messages this side will receive; a callable is evaluated lazily; Suspend marks "not yet"
        self.sent = []
        self.closed = False

    fail_send_at = None          # index of a send that fails with EPIPE: the peer has shut down its reading side

    def send_bytes(self, b):
        if self.fail_send_at is not None and len(self.sent) == self.fail_send_at:
            self.sent.append(None)
            raise BrokenPipeError(32, 'Broken pipe')
        self.sent.append(bytes(b))

    def recv_bytes(self, maxlength=None):
        if not self.incoming:
            raise Suspend()
        m = self.incoming.pop(0)
        if callable(m):
            m = m(self)
        if m is None:
            raise EOFError()
        if maxlength is not None and len(m) > maxlength:
            raise OSError('bad message length')
        return m

    def close(self):
        self.closed = True


def _install(challenges):
    real = {'hmac': sys.modules.get('hmac'), 'urandom': _os.urandom}
    if not REPLAY['on']:
        sys.modules['hmac'] = fake_hmac()
    calls = []

    def urandom(n):
        calls.append(n)
        return challenges[len(calls) - 1]
    bc.os = types.SimpleNamespace(urandom=urandom)
    return real, calls


def _restore(real):
    if real['hmac'] is not None:
        sys.modules['hmac'] = real['hmac']
    bc.os = _os


def _run(fn, chan, key):
    """-> ('ok'|'auth'|'suspend'|'other', exception)"""
    try:
        fn(chan, key)
        return 'ok', None
    except Suspend:
        return 'suspend', None
    except bc.AuthenticationError as e:
        return 'auth', e
    except (AssertionError, EOFError, OSError) as e:
        return 'other', e


def _handshake(deliver_key, answer_key, challenge):
    """one direction: the deliverer challenges the answerer.  Returns (deliverer outcome, answerer outcome, wire)"""
    # the answerer runs until it waits for the verdict: that yields its digest
    a1 = Chan([bc.CHALLENGE + challenge])
    r, _ = _run(bc.answer_challenge, a1, answer_key)
    if r != 'suspend' or len(a1.sent) != 1:
        return None
    digest = a1.sent[0]
    d = Chan([digest])
    dr, _ = _run(bc.deliver_challenge, d, deliver_key)
    if len(d.sent) != 2 or d.sent[0] != bc.CHALLENGE + challenge:
        return ('bad-wire', None, d.sent)
    verdict = d.sent[1]
    a2 = Chan([bc.CHALLENGE + challenge, verdict])
    ar, _ = _run(bc.answer_challenge, a2, answer_key)
    if a2.sent != [digest]:
        return ('nondeterministic', None, None)
    return (dr, ar, d.sent)


KEYS = (b'j', b'k', b'\x00', b'jk', b'kj', b'k\x00', b'j\x00', b'\x00k', b'kk')   # equal / different / prefixes / trailing NUL


def _key(i):
    return KEYS[i] if isinstance(i, int) and not hasattr(i, '__ch_realize__') else KEYS[realize(i)]


def _mutual(kl, kc, c1, c2, want):
    real, calls = _install([c1, c2])
    try:
        # Listener.accept: deliver then answer;  Client: answer then deliver
        first = _handshake(kl, kc, c1)
        if first is None or first[0] in ('bad-wire', 'nondeterministic'):
            return fail('C18:wire:challenge-not-sent-as-generated')
        if want:
            return not (first[0] == 'auth' and first[1] == 'auth')
        l_ok = first[0] == 'ok'
        c_ok = first[1] == 'ok'
        if l_ok and c_ok:
            second = _handshake(kc, kl, c2)
            if second is None or second[0] in ('bad-wire', 'nondeterministic'):
                return fail('C18:wire:challenge-not-sent-as-generated')
            c_ok = second[0] == 'ok'
            l_ok = second[1] == 'ok'
        if kl == kc:
            if not (l_ok and c_ok):
                return fail('C18:equal-keys-rejected')
            if calls != [20, 20]:
                return fail('C18:fresh-challenge-per-direction')
        else:
            if l_ok and c_ok:
                return fail('C18:different-keys-accepted' + (':differ-only-in-trailing-NUL-bytes' if kl.rstrip(b'\x00') == kc.rstrip(b'\x00') else ''))
            if l_ok or c_ok:
                return fail('C18:one-side-accepted')
            if first[0] != 'auth' or first[1] != 'auth':
                return fail('C18:not-AuthenticationError-on-both-sides')
        return True
    finally:
        _restore(real)


CHALLENGES = (b'\x01' * 20, b'#' * 20, b'#CHALLENGE#' + b'\x05' * 9, b'EGNAL' + b'\x07' * 15, b'\x00' * 20, b'#WELCOME##FAILURE#..')
# "whatever the challenge bytes": bytes that also occur in the protocol's own markers, NULs, the markers themselves


def h_mutual(code: int) -> bool:
    """
    pre: 0 <= code < CODEMAX
    post: _
    """
    try:
        nd = NDCode(code)
        ka, kb, ch = nd.draw(0, len(KEYS) - 1), nd.draw(0, len(KEYS) - 1), nd.draw(0, len(CHALLENGES))
    except Prune:
        return True
    c1 = CHALLENGES[ch % len(CHALLENGES)]
    c2 = c1 if ch == len(CHALLENGES) else CHALLENGES[(ch + 1) % len(CHALLENGES)]      # the last case: the same challenge in both directions
    return _mutual(_key(ka), _key(kb), c1, c2, False)


def h_mutual_twin(code: int) -> bool:
    """
    pre: 0 <= code < CODEMAX
    post: _
    """
    try:
        nd = NDCode(code)
        ka, kb = nd.draw(0, len(KEYS) - 1), nd.draw(0, len(KEYS) - 1)
    except Prune:
        return True
    c1 = b'\x01' * 20
    return _mutual(_key(ka), _key(kb), c1, c1, True)


def _byte(sel, right):
    """a reply byte chosen by the solver among: the right one, its neighbours, the extremes"""
    sel = realize(sel)
    return bytes([(right, right ^ 1, (right + 1) % 256, 0, 255)[sel]])


def h_hostile_answer(ka: int, variant: int, sel: int, broken: bool = False) -> bool:
    """
    pre: (ka == 0 or ka == 3) and 0 <= variant <= 4 and 0 <= sel <= 4
    post: _
    """
    # a peer answers the challenge with anything: accepted iff it is exactly the digest.  Replies: nothing, one byte, the right
    # digest with its last byte replaced, the right digest plus a byte, the right digest
    key = _key(ka)
    c1 = b'\x03' * 20
    real, calls = _install([c1])
    try:
        honest = Chan([bc.CHALLENGE + c1])
        _run(bc.answer_challenge, honest, key)
        digest = honest.sent[0]
        variant = realize(variant)
        x = _byte(sel, digest[len(digest) - 1])
        if variant == 0:
            resp = b''
        elif variant == 1:
            resp = x
        elif variant == 2:
            resp = digest[:len(digest) - 1] + x
        elif variant == 3:
            resp = digest + x
        else:
            resp = digest
        d = Chan([resp])
        calls[:] = []
        if broken:
            # the peer reads the challenge, answers, and stops reading: the write of the verdict fails.  Whatever that failure
            # looks like to the caller, a peer that did not prove the key must not come out as authenticated
            d.fail_send_at = 1
            r, _ = _run(bc.deliver_challenge, d, key)
            if resp != digest and r == 'ok':
                return fail('C18:wrong-digest-accepted:verdict-could-not-be-written')
            if len(d.sent) < 1 or d.sent[0] != bc.CHALLENGE + c1:
                return fail('C18:wire:challenge-not-sent-as-generated')
            return True
        r, _ = _run(bc.deliver_challenge, d, key)
        if resp == digest:
            if r != 'ok' or d.sent[1:] != [bc.WELCOME]:
                return fail('C18:correct-digest-refused')
        else:
            if r != 'auth':
                return fail('C18:wrong-digest-accepted')
            if d.sent[1:] != [bc.FAILURE]:
                return fail('C18:wrong-digest-not-answered-FAILURE')
        if calls != [20] or d.sent[0] != bc.CHALLENGE + c1:
            return fail('C18:wire:challenge-not-sent-as-generated')
        return True
    finally:
        _restore(real)


def h_hostile_verdict(pos: int, sel: int, cut: int) -> bool:
    """
    pre: 0 <= pos <= 8 and 0 <= sel <= 4 and 0 <= cut <= 10 and (cut >= 9 or sel == 0)
    post: _
    """
    # the answering side accepts only the exact welcome message: one byte replaced, truncated, or extended
    pos = realize(pos)
    cut = realize(cut)
    wl = bc.WELCOME
    verdict = wl[:pos] + _byte(sel, wl[pos]) + wl[pos + 1:]
    verdict = verdict[:cut] if cut <= 9 else verdict + b'!'
    real, calls = _install([])
    try:
        a = Chan([bc.CHALLENGE + b'\x04' * 20, verdict])
        r, _ = _run(bc.answer_challenge, a, b'k')
        if verdict == bc.WELCOME:
            return r == 'ok' or fail('C18:welcome-refused')
        return r == 'auth' or fail('C18:handshake-completed-without-welcome')
    finally:
        _restore(real)


class FakeTransport(Chan):
    pass


def h_keytype(kind: int, side: bool) -> bool:
    """
    pre: 0 <= kind <= 2
    post: _
    """
    saved = (bc.SocketClient, bc.SocketListener, bc.address_type)
    t = FakeTransport([])
    try:
        bc.address_type = lambda a: 'AF_UNIX'
        bc.SocketClient = lambda address: t

        class L:
            def __init__(self, *a):
                self._address = 'x'
                self._last_accepted = None

            def accept(self):
                return t

            def close(self):
                pass
        bc.SocketListener = L
        key = ('text', 5, bytearray(b'k'))[kind]
        try:
            if side:
                bc.Client('addr', authkey=key)
            else:
                bc.Listener('addr', authkey=key).accept()
        except TypeError:
            return (not t.sent) or fail('C18:non-bytes-key-used-before-rejection')
        except Suspend:
            pass
        return fail('C18:non-bytes-key-not-rejected')
    finally:
        bc.SocketClient, bc.SocketListener, bc.address_type = saved


# ---------------------------------------------------------------------------
# "if and only if both hold the same key", the client's side, against a peer WITHOUT the key while the client has two handshakes
# to that peer under way (two Client() calls from two threads): what the peer says at each step is chosen by the solver from what
# it can know - arbitrary bytes, or bytes it has seen on the other connection.  Client = answer_challenge, then deliver_challenge.

def _relay(code, want):
    nd = NDCode(code)
    key = _key(nd.draw(0, 1) * 3)                   # b'j' or b'jk'
    c1, c2 = b'\x11' * 20, b'\x22' * 20             # the client's fresh challenges on the two connections
    junk = b'\x33' * 20
    m2_sel = nd.draw(0, 1)      # the peer's challenge on connection 2: junk / the challenge the client sent on connection 1
    r1_sel = nd.draw(0, 2)      # the peer's answer on connection 1: junk / what the client answered on connection 2 / nothing (EOF)
    real, calls = _install([c1, c2, c1])
    try:
        # connection 1: the peer challenges (anything), accepts whatever comes back, then receives the client's challenge
        a1 = Chan([bc.CHALLENGE + junk, bc.WELCOME])
        r, _ = _run(bc.answer_challenge, a1, key)
        if r != 'ok':
            raise Prune()
        d1 = Chan([])
        r, _ = _run(bc.deliver_challenge, d1, key)         # sends CHALLENGE + c1, then waits for the peer's answer
        if r != 'suspend' or d1.sent != [bc.CHALLENGE + c1]:
            raise Prune()
        # connection 2, meanwhile
        m2 = bc.CHALLENGE + (junk if m2_sel == 0 else c1)
        a2 = Chan([m2])
        r, _ = _run(bc.answer_challenge, a2, key)          # the client answers the peer's challenge, then waits for the verdict
        if r != 'suspend' or len(a2.sent) != 1:
            raise Prune()
        seen_on_2 = a2.sent[0]
        # back on connection 1: the peer answers the client's challenge
        resp = (junk, seen_on_2, None)[r1_sel]
        d1b = Chan([resp])
        calls[:] = [1, 1]                                  # the same handshake continues: its challenge is c1 (third entry)
        r, _ = _run(bc.deliver_challenge, d1b, key)
        if want:
            return not (r == 'auth')
        if r == 'ok':
            # Client() on connection 1 returns a connection although the peer never held the key
            return fail('C18:peer-without-the-key-authenticated:relay-between-two-concurrent-handshakes-of-the-client')
        return True
    finally:
        _restore(real)


def h_relay(code: int) -> bool:
    """
    pre: 0 <= code < CODEMAX
    post: _
    """
    try:
        return _relay(code, False)
    except Prune:
        return True


def h_relay_twin(code: int) -> bool:
    """
    pre: 0 <= code < CODEMAX
    post: _
    """
    try:
        return _relay(code, True)
    except Prune:
        return True

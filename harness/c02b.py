"""C02, consumer side: an imap / imap_unordered consumer that is *blocked* in next() while results arrive in any order.

The iterator's threading.Condition is replaced by a stand-in whose wait() lets the world move (a symbolic choice of
which worker takes / finishes next, or the result handler handling one message) until somebody calls notify(): that is
what the sleeping consumer thread experiences.  The real IMapIterator.next/_set/_set_length run unchanged.
"""
import billiard.pool as bp
from harness.hbase import fail, tier, Prune, PART, NPART, untraced, NDCode, CODEMAX, THOROUGH
from harness import world as W
from harness.c02 import Fn, _seq, NMAX, KINDS


class WorldCond:
    def __init__(self, step):
        self.step = step
        self.notified = False

    def __enter__(self):
        return True

    def __exit__(self, *a):
        return False

    def notify(self):
        self.notified = True

    notify_all = notify

    def wait(self, timeout=None):
        self.notified = False
        for _ in range(60):
            if self.notified:
                return True
            if not self.step():
                return False          # nothing can move any more: a real consumer would sleep for ever
        return False


def _blocking(kind, n, p_size, bad, nd):
    w = W.World()
    with untraced():
        p = w.make_pool(p_size)
    w.pickle_results = True
    seq = _seq(kind, n, bad)
    # (the feeder is handed the bound method at submission: the deferral has to be in place before that)
    late_flag = nd.flag()
    pending = []
    real_fn = bp.IMapIterator._set_length

    def maybe_deferred(self, length):
        if late_flag and not pending_done:
            pending.append((self, length))
        else:
            real_fn(self, length)
    pending_done = []
    bp.IMapIterator._set_length = maybe_deferred
    try:
        h = p.imap(Fn(bad), list(range(n))) if kind == 'imap' else p.imap_unordered(Fn(bad), list(range(n)))
    finally:
        bp.IMapIterator._set_length = real_fn

    # the task-feeder thread announces the length after it has sent the last task - how long after is up to the scheduler (and to the
    # input: a lazily produced input is exhausted only some time after its last item).  The feeder's call is held back and delivered
    # at a solver-chosen moment: at once, or only when nothing else can move (every result consumed, the consumer blocked in next())
    late = late_flag

    def step():
        # one worker takes or finishes a part (symbolic choice of which), then the result handler catches up:
        # the order in which results arrive is the order in which workers finish
        if p._outqueue.q:
            w.rh()
            return True
        movable = [x for x in p._pool if x.state == 'busy' or (x.state == 'idle' and p._inqueue.q)]
        if not movable:
            if pending:
                it, length = pending.pop()
                pending_done.append(1)
                real_fn(it, length)                    # the feeder gets to announce the length at last
                return True
            return False
        x = movable[nd.draw(0, 1) % len(movable)] if len(movable) > 1 else movable[0]
        if x.state == 'idle':
            w.w_take(x)
        else:
            w.w_done(x)
        return True
    h._cond = WorldCond(step)
    w.feed()                      # the task feeder announces the length after the last task
    got = []
    for _ in range(n + 1):
        try:
            got.append((True, h.next()))          # no timeout: a blocking consumer
        except StopIteration:
            break
        except bp.TimeoutError:
            return fail('C02:iterator:TimeoutError-although-no-timeout-was-requested:' + kind)
        except Prune:
            raise
        except IndexError:
            return fail('C02:iterator:next-raises-IndexError-instead-of-ending:' + kind + (':length-announced-after-the-last-result-was-consumed' if late else ''))
        except Exception as exc:
            einfo = exc.args[0] if exc.args else None
            if W.einfo_type(einfo) is not ValueError:
                return fail('C02:iterator-error-does-not-carry-the-exception-record:' + kind)
            got.append((False, einfo.exception.args))
    else:
        return fail('C02:iterator-yields-too-many-items:' + kind)
    if kind == 'imap':
        if got != seq:
            return fail('C02:imap-order-or-values-differ')
    elif sorted(got, key=repr) != sorted(seq, key=repr):
        return fail('C02:imap_unordered-multiset-differs')
    return True


def h_blocking(code: int) -> bool:
    """
    pre: 0 <= code < CODEMAX
    post: _
    """
    try:
        nd = NDCode(code)
        kind = ('imap', 'imapu')[PART % 2]
        n = (PART // 2) % (NMAX + 1)
        p_size = 1 + nd.draw(0, 1)
        k = nd.draw(0, n)
        bad = 0 if k == n else (1 << k)
        return _blocking(kind, n, p_size, bad, nd)
    except Prune:
        return True

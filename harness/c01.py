"""C01 - every accepted job resolves exactly once, with its own outcome.

Real code run: Pool.apply_async/_map_async/imap_unordered, TaskHandler.body,
ResultHandler dispatch (on_ack/on_ready), ApplyResult/MapResult/
IMapUnorderedIterator._set/_ack, _join_exited_workers, mark_as_worker_lost,
terminate_job/_set_terminated, discard.
Symbolic: the event vector (which worker takes / finishes / dies with which
status, duplicates of earlier messages, result-handler turns, supervision ticks
with clock advances, the index and kind of a failing send, which task raises).
"""
from typing import List
import billiard.pool as bp
from billiard.exceptions import WorkerLostError, Terminated
from harness.hbase import fail, tier, Prune, ND, trace, PART, NPART, untraced
from harness import world as W

K = tier(4, 5)
LWT = 10
SECOND = ('apply', 'map', 'imapu')


class Job:
    def __init__(self, name, kind, parts):
        self.name = name
        self.kind = kind
        self.parts = parts              # tags of the parts
        self.cb = 0
        self.ecb = 0
        self.first = None               # first observed (success, value)
        self.obs = None
        self.send_failed = False


class Propagated(Exception):
    """raised by a result callback and listed in callbacks_propagate: it leaves the result handler's turn (user code failing
    after the outcome exists: the job is resolved all the same)"""


def _submit(p, w, name, kind, bad, cb_raises=False):
    """bad: index of the part whose task raises (-1: none)"""
    if kind == 'apply':
        job = Job(name, kind, [name])

        def cb(v):
            job.cb += 1
            if cb_raises:
                raise Propagated()

        def ecb(v):
            job.ecb += 1
        h = p.apply_async(W.val_or_raise, (name, bad == 0), callback=cb, error_callback=ecb,
                          **({'callbacks_propagate': (Propagated,)} if cb_raises else {}))
    else:
        job = Job(name, kind, [name + '0', name + '1'])
        items = [(name + '0', bad == 0), (name + '1', bad == 1)]
        if kind == 'map':
            def cb(v):
                job.cb += 1

            def ecb(v):
                job.ecb += 1
            h = p._map_async(W.val_or_raise, items, bp.starmapstar, 1, cb, ecb)
            W.int_timeout(h)
        else:
            h = p.imap_unordered(_star, items)
    job.obs = W.Observer(h, kind)
    job.h = h
    return job


def _star(item):
    return W.val_or_raise(*item)


def _own_outcome(job, ok, v, hist):
    """M3: is (ok, v) an outcome this job may legitimately have?"""
    if job.kind == 'apply':
        if ok:
            return v == ('r', job.name) and not job.bad_parts
        t = W.einfo_type(v)
        if t is ValueError:
            args = v.exception.exc.args
            return ((0 in job.bad_parts and args == (('boom', job.name),))
                    or (job.send_failed and args == ('cannot pickle task',)))
        if t is WorkerLostError:
            return job.name in hist['died_holding'] or job.name in hist['terminated_holding']
        if t is Terminated:
            return job.name in hist['terminated_holding']
        return False
    if job.kind == 'map':
        if ok:
            return v == [('r', job.parts[0]), ('r', job.parts[1])] and not job.bad_parts
        t = W.einfo_type(v)
        if t is ValueError:
            args = v.exception.exc.args
            return any(args == (('boom', job.parts[i]),) for i in job.bad_parts) or (job.send_failed and args == ('cannot pickle task',))
        if t is WorkerLostError:
            return any(x in hist['died_holding'] or x in hist['terminated_holding'] for x in job.parts)
        if t is Terminated:
            return any(x in hist['terminated_holding'] for x in job.parts)
        return False
    # imap_unordered: one outcome per item
    if ok:
        return v in [('r', x) for x in job.parts]
    t = W.einfo_type(v)
    if t is ValueError:
        args = v.exception.exc.args
        return any(args == (('boom', job.parts[i]),) for i in job.bad_parts) or (job.send_failed and args == ('cannot pickle task',))
    if t is WorkerLostError:
        return any(x in hist['died_holding'] or x in hist['terminated_holding'] for x in job.parts)
    if t is Terminated:
        return any(x in hist['terminated_holding'] for x in job.parts)
    return False


def _monitor(jobs, hist):
    r = _monitor0(jobs, hist)
    if r is None:
        return None
    tag, job = r
    if job.name in hist['dup_ready']:
        tag += ':after-duplicate-READY'
    if job.name in hist['ack_after_reap']:
        tag += ':ACK-handled-after-sender-was-reaped'
    if job.name in hist['finished_owner_exited']:
        tag += ':owner-of-finished-part-exited'
    return tag


def _monitor0(jobs, hist):
    for job in jobs:
        o = job.obs.observe()
        if job.kind in ('apply', 'map'):
            h = job.h
            if h.ready():
                cur = (h._success, h._value)
                if job.first is None:
                    job.first = cur
                    if not _own_outcome(job, cur[0], cur[1], hist):
                        return ('C01:M3:foreign-or-unjustified-outcome:' + job.kind, job)
                elif job.first[0] != cur[0] or job.first[1] is not cur[1]:
                    return ('C01:M1:outcome-changed:' + job.kind, job)
            elif job.first is not None:
                return ('C01:M1:outcome-withdrawn:' + job.kind, job)
            if job.cb + job.ecb > 1:
                return ('C01:M2:callbacks-fired-twice:' + job.kind, job)
            if (job.cb + job.ecb) and not h.ready():
                return ('C01:M2:callback-before-outcome:' + job.kind, job)
        else:
            for ok, v in o.outcomes:
                if not _own_outcome(job, ok, v, hist):
                    return ('C01:M3:foreign-or-unjustified-outcome:' + job.kind, job)
            if len(o.outcomes) > len(job.parts):
                return ('C01:M1:more-outcomes-than-parts:imapu', job)
            vals = [v for ok, v in o.outcomes if ok]
            if len(set(vals)) != len(vals):
                return ('C01:M1:duplicate-item:imapu', job)
    return None


def _tag_of(w):
    """tag of the part worker w is running"""
    job, i, fun, args, kwargs = w.cur
    a = args[0]
    if isinstance(a, tuple) and a and callable(a[0]):
        return a[1][0][0]      # (func, ((tag, bad),)) : a chunk of one item
    if isinstance(a, tuple):
        return a[0]            # (tag, bad)
    return a                   # apply: tag


def _name_of(jobs, jid):
    for j in jobs:
        if j.h._job == jid:
            return j.name
    return None


def _machine(second, bad, ev, mode, want):
    w = W.World()
    with untraced():
        p = w.make_pool(2, lost_worker_timeout=LWT)
    nd = ND(ev)
    hist = {'died_holding': set(), 'terminated_holding': set(), 'dup_ready': set(), 'ack_after_reap': set(), 'finished_owner_exited': set()}
    fail_at = -1
    badA, badB = -1, -1
    if mode == 'send':
        # a send fails: jobs go through the task queue as in a threaded pool
        p.threads = True
        fail_at = nd.draw(0, 2)
    else:
        badA = 0 if bad == 1 else -1
        badB = (bad - 2) if 2 <= bad <= 3 else -1
        if second == 'apply' and badB == 1:
            raise Prune()
    cb_raises = bad == 4          # A's success callback raises an exception the submitter asked to have propagated
    A = _submit(p, w, 'A', 'apply', badA, cb_raises)
    B = _submit(p, w, 'B', second, badB)
    A.bad_parts = [0] if badA == 0 else []
    B.bad_parts = [badB] if badB >= 0 else []
    jobs = [A, B]
    if mode == 'send':
        # order of sends: A, then B's parts
        sent = [(A, 0)] + [(B, i) for i in range(len(B.parts))]
        if fail_at >= len(sent):
            raise Prune()
        sent[fail_at][0].send_failed = True
        w.feed(put_fail_at=fail_at, put_fail_kind=0)
        if want == 'sendfail':
            return False
    else:
        w.feed()
    bad = _monitor(jobs, hist)
    if bad:
        return fail(bad + ':after-submit')
    last_msg = {}
    for _ in range(K):
        e = nd.draw(0, 6)
        if e <= 1:
            x = p._pool[e] if e < len(p._pool) else None
            if x is None:
                raise Prune()
            if x.state == 'idle':
                w.w_take(x)
            elif x.state == 'busy':
                w.w_done(x)
            else:
                raise Prune()
            last_msg[e] = p._outqueue.q[-1] if p._outqueue.q else last_msg.get(e)
        elif e == 2:
            if p._outqueue.q and p._outqueue.q[0][0] == bp.ACK and p._outqueue.q[0][1][3] not in [x.pid for x in p._pool]:
                hist['ack_after_reap'].add(_name_of(jobs, p._outqueue.q[0][1][0]))
            try:
                w.rh()
            except Propagated:
                if want == 'cbraise':
                    return False
        elif e == 3:
            # a late or duplicate copy of some worker's last message
            k = nd.draw(0, 1)
            if k not in last_msg or last_msg[k] is None:
                raise Prune()
            if last_msg[k][0] == bp.READY:
                hist['dup_ready'].add(_name_of(jobs, last_msg[k][1][0]))
            w.emit(last_msg[k])
            if want == 'dup':
                return False
        elif e == 4:
            if mode not in ('fault', 'term'):
                raise Prune()
            k = nd.draw(0, 1)
            if k >= len(p._pool):
                raise Prune()
            x = p._pool[k]
            if x.exitcode is not None:
                raise Prune()
            if x.state == 'busy':
                hist['died_holding'].add(_tag_of(x))
            for (jid, i) in x.taken:
                if not (x.state == 'busy' and (jid, i) == (x.cur[0], x.cur[1])):
                    hist['finished_owner_exited'].add(_name_of(jobs, jid))
            w.w_exit(x, nd.draw(-15, 3))
        elif e == 5:
            if mode not in ('fault', 'term'):
                raise Prune()
            w.adv(nd.draw(0, LWT + 2))
            try:
                w.tick()
            except AttributeError as exc:
                return fail('C01:tick-raises:' + str(exc).split(' object')[0].strip("'") + ':' + str(exc).split("'")[-2])
        else:
            if mode != 'term':
                raise Prune()
            k = nd.draw(0, 1)
            if k >= len(p._pool):
                raise Prune()
            x = p._pool[k]
            if x.exitcode is not None or x.state != 'busy':
                raise Prune()
            hist['terminated_holding'].add(_tag_of(x))
            for (jid, i) in x.taken:
                if (jid, i) != (x.cur[0], x.cur[1]):
                    hist['finished_owner_exited'].add(_name_of(jobs, jid))
            p.terminate_job(x.pid)
            x.die(-15)                      # the worker honours TERM (C08 worker side)
        bad = _monitor(jobs, hist)
        if bad:
            return fail(bad)
    # quiescence: everything that can still happen, happens
    while p._outqueue.q:
        if p._outqueue.q[0][0] == bp.ACK and p._outqueue.q[0][1][3] not in [x.pid for x in p._pool]:
            hist['ack_after_reap'].add(_name_of(jobs, p._outqueue.q[0][1][0]))
        try:
            w.rh()
        except Propagated:
            pass
    for _ in range(3):
        for x in list(p._pool):
            if x.exitcode is None and x.state == 'idle' and p._inqueue.q:
                w.w_take(x)
            if x.exitcode is None and x.state == 'busy':
                w.w_done(x)
        for _t in range(3):
            try:
                w.drain_results()
                break
            except Propagated:
                pass
        try:
            w.tick()
            w.adv(LWT + 1)
            w.tick()
        except AttributeError as exc:
            return fail('C01:tick-raises:' + str(exc).split(' object')[0].strip("'") + ':' + str(exc).split("'")[-2])
        bad = _monitor(jobs, hist)
        if bad:
            return fail(bad + ':closing')
    for job in jobs:
        job.obs.observe()
        sfx = ''
        if job.send_failed:
            sfx += ':send-failed'
        if job.name in hist['dup_ready']:
            sfx += ':after-duplicate-READY'
        if job.name in hist['ack_after_reap']:
            sfx += ':ACK-handled-after-sender-was-reaped'
        if job.name in hist['finished_owner_exited']:
            sfx += ':owner-of-finished-part-exited'
        if job.kind in ('apply', 'map'):
            if not job.h.ready():
                return fail('C01:M4:never-resolved:' + job.kind + sfx)
        else:
            if not job.obs.complete() or len(job.obs.outcomes) != len(job.parts):
                return fail('C01:M4:never-resolved:imapu' + sfx)
    if want == 'lost' and (A.obs.lost or B.obs.lost):
        return False
    if want == 'term' and hist['terminated_holding']:
        return False
    return True


def _pre(bad, ev):
    return 0 <= bad <= 4 and len(ev) == 2 * K + 1


def _first(ev, firsts, sub):
    """partitioning on the first event (one of `firsts`; anything else is pruned at once anyway) and on
    ev[1] modulo `sub`: part index = (PART // 3) = f * sub + r"""
    i = PART // 3
    f, r = i // sub, i % sub
    if f >= len(firsts):
        return False
    return ev[0] == firsts[f] and ev[1] % sub == r


def _go(bad, ev, mode, want):
    try:
        return _machine(SECOND[PART % 3], bad, ev, mode, want)
    except Prune:
        return True


def h_dispatch(bad: int, ev: List[int]) -> bool:
    """
    pre: _pre(bad, ev) and bad <= 3 and _first(ev, (0, 1), 2)
    post: _
    """
    return _go(bad, ev, 'dispatch', None)


def h_cbraise(ev: List[int]) -> bool:
    """
    pre: _pre(4, ev) and _first(ev, (0, 1), 1)
    post: _
    """
    return _go(4, ev, 'dispatch', None)


def h_cbraise_twin(ev: List[int]) -> bool:
    """
    pre: _pre(4, ev) and _first(ev, (0, 1), 1)
    post: _
    """
    return _go(4, ev, 'dispatch', 'cbraise')


def h_dispatch_twin(bad: int, ev: List[int]) -> bool:
    """
    pre: _pre(bad, ev) and bad <= 3 and _first(ev, (0, 1), 2)
    post: _
    """
    return _go(bad, ev, 'dispatch', 'dup')


def h_fault(bad: int, ev: List[int]) -> bool:
    """
    pre: _pre(bad, ev) and bad == 0 and _first(ev, (0, 1, 4), 2)
    post: _
    """
    return _go(bad, ev, 'fault', None)


def h_fault_twin(bad: int, ev: List[int]) -> bool:
    """
    pre: _pre(bad, ev) and bad == 0 and _first(ev, (0, 1, 4), 2)
    post: _
    """
    return _go(bad, ev, 'fault', 'lost')


def h_term(bad: int, ev: List[int]) -> bool:
    """
    pre: _pre(bad, ev) and bad == 0 and (ev[0] == 0 or ev[0] == 1) and ev[0] == (PART // 3) % 2 and (NPART <= 6 or ev[1] % 2 == (PART // 6) % 2)
    post: _
    """
    return _go(bad, ev, 'term', None)


def h_term_twin(bad: int, ev: List[int]) -> bool:
    """
    pre: _pre(bad, ev) and bad == 0 and (ev[0] == 0 or ev[0] == 1) and ev[0] == (PART // 3) % 2 and (NPART <= 6 or ev[1] % 2 == (PART // 6) % 2)
    post: _
    """
    return _go(bad, ev, 'term', 'term')


def h_send(bad: int, ev: List[int]) -> bool:
    """
    pre: _pre(bad, ev) and bad == 0
    post: _
    """
    return _go(bad, ev, 'send', None)


def h_send_twin(bad: int, ev: List[int]) -> bool:
    """
    pre: _pre(bad, ev) and bad == 0
    post: _
    """
    return _go(bad, ev, 'send', 'sendfail')

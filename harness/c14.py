"""C14 - the shared-memory heap never hands out overlapping or misplaced memory.

Real code: Heap.malloc/free/_malloc/_free/_absorb/_free_pending_blocks,
BufferWrapper.__init__/create_memoryview.  Arena -> a record (size, serial, a
bytearray buffer), mmap.PAGESIZE -> 64, Heap._roundup -> ((n+a-1)//a)*a (the
`&` form realises its operand; equality of the two is lemma L-roundup, proved
by z3 on the current source text every run).
One *inductive step* per obligation: the pre-state is an arbitrary heap
satisfying the representation invariant (symbolic cut points and live/free
flags), one malloc or free with symbolic arguments runs, the invariant and the
property are asserted afterwards.  A garbage-collection-triggered free is
delivered at a symbolic point *inside* the operation.
"""
import bisect
from typing import List
import billiard.heap as bh
from harness.hbase import fail, tier, Prune, PART, NPART, realize, pick, NDCode, CODEMAX, THOROUGH

PAGE = 64
UMAX = tier(5, 9)           # arena size in units of 8 bytes
SMAX = tier(48, 100)        # largest request


class FakeArena:
    n = 0

    def __init__(self, size, fd=-1):
        self.size = size
        FakeArena.n += 1
        self.id = FakeArena.n
        self.buffer = bytearray(size) if isinstance(size, int) and size <= 4096 else None

    def __repr__(self):
        return 'A%d' % self.id

    def __hash__(self):
        return self.id            # deterministic across the re-executions of a path (the default hash is the address)

    def __eq__(self, other):
        return self is other


class _FakeMmap:
    PAGESIZE = PAGE


def _roundup_div(n, alignment):
    return ((n + alignment - 1) // alignment) * alignment


def install():
    bh.Arena = FakeArena
    bh.mmap = _FakeMmap
    bh.Heap._roundup = staticmethod(_roundup_div)
    bh.util.info = lambda *a, **k: None
    FakeArena.n = 0


def build(cuts_flags, hsize):
    """arenas from [(cuts, flags)]: cuts increasing multiples of 8, last = arena size; flag True = live"""
    h = bh.Heap(hsize)
    blocks = []
    for cuts, flags in cuts_flags:
        a = FakeArena(cuts[-1])
        h._arenas.append(a)
        start = 0
        for c, live in zip(cuts, flags):
            blk = (a, start, c)
            blocks.append((blk, live))
            if live:
                h._allocated_blocks.add(blk)
            else:
                L = c - start
                h._len_to_seq.setdefault(L, []).append(blk)
                if L not in h._lengths:
                    bisect.insort(h._lengths, L)
                h._start_to_block[(a, start)] = blk
                h._stop_to_block[(a, c)] = blk
            start = c
    return h, blocks


def inv(h):
    """representation invariant; returns None or the name of the broken clause"""
    per = {}
    for a in h._arenas:
        per[a.id] = []
    for (a, s, e) in h._allocated_blocks:
        if a.id not in per:
            return 'live-block-in-unknown-arena'
        per[a.id].append((s, e, 'L'))
    nfree = 0
    for length, seq in h._len_to_seq.items():
        if not seq:
            return 'empty-length-bucket'
        if length not in h._lengths:
            return 'length-index'
        for (a, s, e) in seq:
            if e - s != length:
                return 'bucket-length'
            if h._start_to_block.get((a, s)) != (a, s, e) or h._stop_to_block.get((a, e)) != (a, s, e):
                return 'start-stop-index'
            per[a.id].append((s, e, 'F'))
            nfree += 1
    if len(h._start_to_block) != nfree or len(h._stop_to_block) != nfree:
        return 'start-stop-index-size'
    if sorted(set(h._lengths)) != list(h._lengths) or len(h._lengths) != len(h._len_to_seq):
        return 'lengths-sorted-unique'
    for a in h._arenas:
        pos = 0
        prev = None
        for (s, e, k) in sorted(per[a.id]):
            if s != pos or e <= s:
                return 'not-a-partition'          # gap or overlap
            if k == 'L' and s % 8 != 0:
                return 'misaligned-live-block'
            if k == 'F' and prev == 'F':
                return 'adjacent-free-blocks-not-merged'
            pos = e
            prev = k
        if pos != a.size:
            return 'not-a-partition'
    for b in h._pending_free_blocks:
        if b not in h._allocated_blocks:
            return 'pending-free-not-live'
    return None


SHAPES = [(True, True, True), (True, True, False), (True, False, True), (False, True, True), (False, True, False)]


def _prestate(u1, u2, u3, shape, second):
    cuts = [8 * u1, 8 * (u1 + u2), 8 * (u1 + u2 + u3)]
    spec = [(cuts, list(shape))]
    if second:
        spec.append(([16, 40, 64], [True, False, True]))     # a second arena with a 24-byte free extent
    return build(spec, PAGE)


class GC:
    """a garbage-collection-triggered free delivered inside an operation"""

    def __init__(self, h, at, victim):
        self.h = h
        self.at = at
        self.victim = victim
        self.n = 0
        self.fired = False

    def hook(self, name):
        orig = getattr(self.h, name)

        def wrapped(*a, **k):
            self.n += 1
            if self.n == self.at and not self.fired and self.victim is not None:
                self.fired = True
                self.h.free(self.victim)
            return orig(*a, **k)
        setattr(self.h, name, wrapped)

    def install(self):
        for name in ('_malloc', '_free', '_absorb'):
            self.hook(name)


def _malloc_step(u1, u2, u3, size, gc_at, gc_who, pend, want):
    install()
    shape = SHAPES[PART % 5]
    second = (PART // 5) % 2 == 1
    h, blocks = _prestate(u1, u2, u3, shape, second)
    if inv(h) is not None:
        raise AssertionError('harness: pre-state violates the invariant')
    live = [b for b, l in blocks if l]
    victim = live[gc_who] if 0 <= gc_who < len(live) else None
    if 0 <= pend < len(live) and pend != gc_who:
        h._pending_free_blocks.append(live[pend])       # a free that found the lock taken earlier
    gc = GC(h, gc_at, victim)
    gc.install()
    live_before = set(h._allocated_blocks)
    maxfree = max(h._lengths) if h._lengths else 0
    narenas = len(h._arenas)
    try:
        blk = h.malloc(size)
    except Exception as exc:
        return fail('C14:malloc-raises:' + type(exc).__name__ + (':gc-free-inside' if gc.fired else ''))
    sfx = ':gc-free-inside' if gc.fired else ''
    (ar, s, e) = blk
    bad = inv(h)
    if bad:
        return fail('C14:malloc:' + bad + sfx)
    if e - s < size or s % 8 != 0 or s < 0 or e > ar.size or ar not in h._arenas:
        return fail('C14:malloc:block-too-small-misaligned-or-outside-arena' + sfx)
    if blk not in h._allocated_blocks:
        return fail('C14:malloc:returned-block-not-recorded-live' + sfx)
    # (disjointness from every other live block is the partition clause of the invariant)
    need = _roundup_div(max(size, 1), 8)
    if maxfree >= need and len(h._arenas) != narenas:
        return fail('C14:malloc:new-arena-although-free-extent-fits' + sfx)
    if h._lock.locked():
        return fail('C14:malloc:lock-left-held')
    if want == 'gc' and gc.fired:
        return False
    if want == 'arena' and len(h._arenas) != narenas:
        return False
    return True


def _free_step(u1, u2, u3, who, gc_at, gc_who, locked, want):
    install()
    shape = SHAPES[PART % 5]
    second = (PART // 5) % 2 == 1
    h, blocks = _prestate(u1, u2, u3, shape, second)
    live = [b for b, l in blocks if l]
    if not (0 <= who < len(live)):
        raise Prune()
    target = live[who]
    victim = live[gc_who] if (0 <= gc_who < len(live) and gc_who != who) else None
    gc = GC(h, gc_at, victim)
    gc.install()
    free_before = set(b for b, l in blocks if not l)
    if locked:
        h._lock.acquire()          # the free comes from a finalizer while another operation holds the lock
    try:
        h.free(target)
    except Exception as exc:
        return fail('C14:free-raises:' + type(exc).__name__ + (':gc-free-inside' if gc.fired else ''))
    sfx = ':gc-free-inside' if gc.fired else ''
    if locked:
        if h._pending_free_blocks != [target] or target not in h._allocated_blocks:
            return fail('C14:free:lock-held-free-not-deferred')
        h._lock.release()
        if want == 'locked':
            return False
        # the next operation absorbs it
        try:
            h.malloc(8)
        except Exception as exc:
            return fail('C14:malloc-raises:' + type(exc).__name__ + ':after-deferred-free')
        if target in h._pending_free_blocks:
            return fail('C14:free:deferred-free-not-absorbed')
    bad = inv(h)
    if bad:
        return fail('C14:free:' + bad + sfx)
    if not locked:
        if target in h._allocated_blocks:
            return fail('C14:free:block-still-live' + sfx)
        # merged with both free neighbours: the freed bytes lie in ONE free block covering its former free neighbours
        (a, s, e) = target
        cover = [b for seq in h._len_to_seq.values() for b in seq if b[0] is a and b[1] <= s and e <= b[2]]
        if len(cover) != 1:
            return fail('C14:free:freed-space-not-in-one-free-block' + sfx)
        for (fa, fs, fe) in free_before:
            if fa is a and (fe == s or fs == e):
                if not (cover[0][1] <= fs and fe <= cover[0][2]):
                    return fail('C14:free:neighbour-not-merged' + sfx)
    if h._lock.locked():
        return fail('C14:free:lock-left-held')
    if want == 'gc' and gc.fired:
        return False
    return True


COMBOS = [(a, b, c) for a in range(1, UMAX - 1) for b in range(1, UMAX - 1) for c in range(1, UMAX - 1) if a + b + c <= UMAX]
GCS = [(0, -1, -1), (0, -1, 0), (0, -1, 1)] + [(at, who, -1) for at in (1, 2, 3) for who in (0, 1)]
# (gc_at, gc_who, pend): nothing / a block already on the pending list / a GC free inside the operation at call 1..3, victim 0..1


def _combo(nd):
    n = len(COMBOS)
    if n <= 16:
        return COMBOS[nd.draw(0, n - 1)]
    k = nd.draw(0, 15) + 16 * nd.draw(0, (n - 1) // 16)
    if k >= n:
        raise Prune()
    return COMBOS[k]


def h_malloc(code: int, size: int) -> bool:
    """
    pre: 0 <= code < CODEMAX and 0 <= size <= SMAX
    post: _
    """
    try:
        nd = NDCode(code)
        g = GCS[nd.draw(0, len(GCS) - 1)]
        u = _combo(nd)
        return _malloc_step(u[0], u[1], u[2], size, g[0], g[1], g[2], None)
    except Prune:
        return True


def h_malloc_twin(code: int, size: int) -> bool:
    """
    pre: 0 <= code < CODEMAX and 0 <= size <= SMAX
    post: _
    """
    try:
        nd = NDCode(code)
        g = GCS[nd.draw(0, len(GCS) - 1)]
        u = _combo(nd)
        return _malloc_step(u[0], u[1], u[2], size, g[0], g[1], g[2], 'gc')
    except Prune:
        return True


def h_free(code: int) -> bool:
    """
    pre: 0 <= code < CODEMAX
    post: _
    """
    try:
        nd = NDCode(code)
        g = GCS[nd.draw(0, len(GCS) - 1)]
        if g[2] != -1:
            raise Prune()
        who = nd.draw(0, 2)
        locked = nd.flag()
        u = _combo(nd)
        return _free_step(u[0], u[1], u[2], who, g[0], g[1], locked, None)
    except Prune:
        return True


def h_free_twin(code: int) -> bool:
    """
    pre: 0 <= code < CODEMAX
    post: _
    """
    try:
        nd = NDCode(code)
        g = GCS[nd.draw(0, len(GCS) - 1)]
        if g[2] != -1:
            raise Prune()
        who = nd.draw(0, 2)
        locked = nd.flag()
        u = _combo(nd)
        return _free_step(u[0], u[1], u[2], who, g[0], g[1], locked, 'locked')
    except Prune:
        return True


SIZES = (0, 1, 8, 25, 64, 65) if THOROUGH else (0, 9, 24, 56, 65)


def h_history(code: int) -> bool:
    """
    pre: 0 <= code < CODEMAX
    post: _
    """
    try:
        nd = NDCode(code)
        f0 = nd.draw(0, 1)
        f1 = nd.draw(0, 2)
        s0 = SIZES[nd.draw(0, len(SIZES) - 1)]
        s1 = SIZES[nd.draw(0, len(SIZES) - 1)]
        s2 = SIZES[nd.draw(0, len(SIZES) - 1)]
    except Prune:
        return True
    install()
    h = bh.Heap(PAGE)
    if inv(h) is not None:
        return fail('C14:init:invariant')
    live = []
    for sz in (s0, s1):
        b = h.malloc(sz)
        live.append((b, sz))
    bad = inv(h)
    if bad:
        return fail('C14:history:' + bad)
    b, _ = live.pop(f0)
    h.free(b)
    bad = inv(h)
    if bad:
        return fail('C14:history:' + bad)
    b = h.malloc(s2)
    live.append((b, s2))
    if f1 < len(live):
        b, _ = live.pop(f1)
        h.free(b)
    bad = inv(h)
    if bad:
        return fail('C14:history:' + bad)
    spans = sorted((a.id, s, e) for (a, s, e), _ in live)
    for i in range(len(spans) - 1):
        if spans[i][0] == spans[i + 1][0] and spans[i][2] > spans[i + 1][1]:
            return fail('C14:history:live-blocks-overlap')
    for (a, s, e), req in live:
        if e - s < req or s % 8:
            return fail('C14:history:block-too-small-or-misaligned')
    return True


WSIZES = (0, 1, 7, 8, 9, 40, 64, 100)


def h_wrapper(code: int) -> bool:
    """
    pre: 0 <= code < CODEMAX
    post: _
    """
    try:
        nd = NDCode(code)
        size = WSIZES[nd.draw(0, len(WSIZES) - 1)]
        other = WSIZES[nd.draw(0, len(WSIZES) - 1)]
    except Prune:
        return True
    install()
    bh.BufferWrapper._heap = bh.Heap(PAGE)
    w1 = bh.BufferWrapper(size)
    w2 = bh.BufferWrapper(other)
    try:
        (a1, s1, e1), n1 = w1._state
        (a2, s2, e2), n2 = w2._state
        if n1 != size or n1 > e1 - s1 or n2 > e2 - s2:
            return fail('C14:wrapper:size-exceeds-block')
        m1 = w1.create_memoryview()
        if len(m1) != size:
            return fail('C14:wrapper:view-length')
        if a1 is a2 and not (e1 <= s2 or e2 <= s1):
            return fail('C14:wrapper:two-live-wrappers-share-storage')
        # writing through one view never changes the other (isolation clause used by C15)
        m2 = w2.create_memoryview()
        for i in range(len(m2)):
            m2[i] = 7
        for i in range(len(m1)):
            m1[i] = 9
        if any(x != 7 for x in m2):
            return fail('C14:wrapper:write-through-one-view-changed-the-other')
        return True
    finally:
        bh.util._finalizer_registry.clear()


def v_roundup(tier_name):
    """L-roundup: the real Heap._roundup source equals ((n+a-1)//a)*a for every 0 <= n < 2**63 (z3, QF_BV),
    cross-checked with cvc5"""
    from vlib import smt
    return smt.lemma_roundup()

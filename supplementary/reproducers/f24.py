import billiard
from billiard.managers import SyncManager
def sq(x): return x*x
if __name__ == '__main__':
    m = SyncManager(); m.start()
    p = m.Pool(2)
    it = p.imap(sq, [1,2,3])
    try:
        print(list(it)); rc=0
    except Exception as e:
        print('ERR', type(e).__name__, str(e)[-200:]); rc=1
    p.terminate(); m.shutdown()
    raise SystemExit(rc)

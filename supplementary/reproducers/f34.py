import billiard, time
def f(x): return x * 2
if __name__ == '__main__':
    p = billiard.Pool(1, maxtasksperchild=1)
    rs = [p.apply_async(f, (i,)) for i in range(4)]
    p.close()
    t = time.time(); p.join(); dt = time.time() - t
    done = [r.ready() for r in rs]
    print('join() returned after %.1fs; jobs resolved: %s' % (dt, done))
    raise SystemExit(0 if all(done) else 1)

import billiard
def f(x):
    if x == 1: raise ValueError(('boom', x))
    return x*10
if __name__ == '__main__':
    for name in ('imap','imap_unordered'):
        p = billiard.Pool(2)
        it = getattr(p,name)(f, range(6), chunksize=2)
        out=[]
        while True:
            try: out.append(next(it))
            except StopIteration: break
            except Exception as e: out.append(('ERR', type(e).__name__))
            if len(out)>10: break
        print(name, out)
        p.terminate()

import billiard, os
class V:
    def __reduce__(self): raise TypeError('cannot pickle')
    def __repr__(self): raise RuntimeError('cannot show')
def task(): return V()
def pid(): return os.getpid()
if __name__ == '__main__':
    p = billiard.Pool(1)
    before = p.apply_async(pid).get(10)
    r = p.apply_async(task)
    try:
        r.get(30); out = 'value'
    except Exception as e:
        out = type(e).__name__
    after = p.apply_async(pid).get(30)
    print('outcome:', out, '| same worker afterwards:', before == after)
    p.terminate()
    raise SystemExit(0 if out == 'MaybeEncodingError' and before == after else 1)

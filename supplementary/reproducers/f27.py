# real threads: a result handler's release() lands between the two statements of shrink()
import threading, billiard.pool as bp
class S(bp.LaxBoundedSemaphore):
    gate = None
    def acquire(self, *a, **k):
        if self.gate:                       # shrink() has lowered the bound and is about to take its slot
            g, self.gate = self.gate, None
            g[0].set(); g[1].wait(5)
        return bp.LaxBoundedSemaphore.acquire(self, *a, **k)
s = S(2)
s.acquire()                                  # one job in flight: value 1, bound 2
s.gate = (threading.Event(), threading.Event())
g = s.gate
t = threading.Thread(target=s.shrink); t.start()
g[0].wait(5)
bp.LaxBoundedSemaphore.release(s)           # the job's result arrives
g[1].set(); t.join(5)
print('value', s._value, 'bound', s._initial_value, '(nothing is held any more)')
raise SystemExit(0 if s._value == s._initial_value else 1)

import array
from billiard import Pipe
a, b = Pipe()
a.send_bytes(b'abcde')            # 5 bytes into an array of 4-byte items
dst = array.array('i', [0]*3)
n = b.recv_bytes_into(dst)
print(n, dst.tobytes()); ok1 = dst.tobytes()[:5] == b'abcde'
a.send_bytes(b'wxyz'); dst = array.array('i', [0]*3)
n = b.recv_bytes_into(dst, 2); print(n, dst.tobytes()); ok2 = dst.tobytes()[2:6] == b'wxyz' and dst.tobytes()[:2]==b'\0\0'
raw = memoryview(bytearray(b'ABCDEF')).cast('B',(2,3))
a.send_bytes(raw); r = b.recv_bytes(); print(r); ok3 = r == b'ABCDEF'
raise SystemExit(0 if ok1 and ok2 and ok3 else 1)

#!/bin/bash
# usage: tools/confirm_seed.sh <src-dir> <seed-name> <PROP> <variant> "<change>" "<needs>" "<origin>"
# Copies patch.diff/demo.py/notes.md from <src-dir> to seeded/<seed-name>/, re-confirms them in a fresh scratch worktree of /repo
# (demo on clean code; patch applies; repository suite with the change; demo with the change) and writes meta.json.
set -u
cd "$(dirname "$0")/.."
SRC=$1; NAME=$2; PROP=$3; VAR=$4; CHANGE=$5; NEEDS=$6; ORIGIN=$7
D=seeded/$NAME; mkdir -p $D
cp $SRC/patch.diff $SRC/demo.py $D/; [ -f $SRC/notes.md ] && cp $SRC/notes.md $D/
WT=/var/tmp/confirm-$NAME
git -C /repo worktree remove --force $WT >/dev/null 2>&1; rm -rf $WT
git -C /repo worktree add --detach $WT HEAD >/dev/null 2>&1 || { echo "worktree failed"; exit 2; }
cd $WT
PYTHONPATH=$WT timeout 120 /venv/bin/python $OLDPWD/$D/demo.py > /var/tmp/confirm-$NAME.clean.log 2>&1; RC0=$?
if git apply $OLDPWD/$D/patch.diff 2>/var/tmp/confirm-$NAME.apply.log; then AP=ok; else AP=FAILED; fi
SUITE=$(timeout 900 /venv/bin/python -m pytest -ra -q -p no:cacheprovider --timeout=900 --continue-on-collection-errors 2>&1 | grep -E " passed| failed| error" | tail -1)
case "$SUITE" in *failed*) SUITE2=$(timeout 900 /venv/bin/python -m pytest -ra -q -p no:cacheprovider --timeout=900 --continue-on-collection-errors 2>&1 | grep -E "^FAILED|passed|failed" | tr '\n' ' '); SUITE="$SUITE || rerun: $SUITE2";; esac
PYTHONPATH=$WT timeout 120 /venv/bin/python $OLDPWD/$D/demo.py > /var/tmp/confirm-$NAME.patched.log 2>&1; RC1=$?
cd $OLDPWD
git -C /repo worktree remove --force $WT >/dev/null 2>&1; rm -rf $WT
python3 - "$D" "$PROP" "$VAR" "$CHANGE" "$NEEDS" "$ORIGIN" "$RC0" "$AP" "$SUITE" "$RC1" <<'PY'
import json,sys
d,prop,var,change,needs,origin,rc0,ap,suite,rc1=sys.argv[1:]
json.dump({"property":prop,"variant":var,"origin":origin,"change":change,"needs_to_manifest":needs,
 "confirmed_by_me":{"how":"tools/confirm_seed.sh: fresh scratch worktree of /repo HEAD; demo on clean code; git apply patch.diff; repository test suite (re-run once if something failed: test_on_ready_counter_is_synchronized is load-sensitive on the unchanged tree too); demo with the change",
 "demo_on_clean_code_rc":rc0,"patch_applies":ap,"suite_with_change":suite,"demo_with_change_rc":rc1}},open(d+'/meta.json','w'),indent=1)
print(prop,var,'clean rc',rc0,'apply',ap,'suite:',suite,'patched rc',rc1)
PY

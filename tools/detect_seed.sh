#!/bin/bash
# usage: tools/detect_seed.sh <seed-name> [PROP ...]
# Checks a seeded change WITHOUT touching /repo: a scratch copy of /repo's working tree gets the patch and the
# quick checks run against it through VERIF_REPO; evidence and replay files go to the scratch directory.
# (tools/run_seeded.sh does the same by applying the patch to /repo itself and undoing it.)
set -u
cd "$(dirname "$0")/.."
NAME=$1; shift
PROPS="$@"
[ -z "$PROPS" ] && PROPS=$(python3 -c "import json;print(json.load(open('seeded/$NAME/meta.json'))['property'])")
S=/var/tmp/seedscratch-$NAME
rm -rf $S; mkdir -p $S/repo $S/evidence $S/replays
rsync -a --exclude .git /repo/ $S/repo/
( cd $S/repo && patch -p1 -s < "$OLDPWD/seeded/$NAME/patch.diff" ) || { echo "patch does not apply"; rm -rf $S; exit 2; }
OUT=seeded/$NAME/detection.txt
[ -n "${VERIF_ONLY:-}" ] && OUT=/var/tmp/detect_only_$NAME.txt   # a partial run is not the recorded detection
: > $OUT
for P in $PROPS; do
  VERIF_REPO=$S/repo VERIF_EVIDENCE_DIR=$S/evidence VERIF_REPLAY_DIR=$S/replays VERIF_JOBS=${VERIF_JOBS:-16} ./check run $P ${VERIF_ONLY:+--only $VERIF_ONLY} > $S/$P.log 2>&1; RC=$?
  N=$(grep -c "^VIOLATION property=$P" $S/$P.log)
  TAGS=$(grep -o "tag=[^ ]*" $S/$P.log | sort | uniq -c | sort -rn | head -3 | tr '\n' ';')
  HE=$(grep -c "^HARNESS-ERROR" $S/$P.log)
  INC=$(grep -c "^INCONCLUSIVE" $S/$P.log)
  echo "$P exit=$RC violations=$N harness_errors=$HE inconclusive=$INC $TAGS" >> $OUT
done
rm -rf $S
cat $OUT

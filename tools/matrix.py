#!/usr/bin/env python3
"""prints the seeded-change detection table (markdown) from seeded/*/meta.json and seeded/*/detection.txt"""
import glob
import json
import os
import re

HERE = os.path.dirname(os.path.dirname(os.path.abspath(__file__)))
rows = []
for d in sorted(glob.glob(os.path.join(HERE, 'seeded', '*'))):
    name = os.path.basename(d)
    try:
        meta = json.load(open(os.path.join(d, 'meta.json')))
    except Exception:
        continue
    det = ''
    p = os.path.join(d, 'detection.txt')
    if os.path.exists(p):
        det = open(p).read().strip()
    caught = []
    missed = []
    for line in det.splitlines():
        m = re.match(r'(C\d+) exit=(\S+) violations=(\d+) harness_errors=(\d+) inconclusive=(\d+) ?(.*)', line)
        if not m:
            continue
        prop, rc, nv, he, inc, tags = m.groups()
        tag = re.sub(r'^\s*\d+\s+', '', tags.split(';')[0]).replace('tag=', '') if tags else ''
        if int(nv) > 0:
            caught.append('%s (%s)' % (prop, tag[:70]))
        elif int(he) > 0:
            caught.append('%s (HARNESS-ERROR)' % prop)
        else:
            missed.append(prop + (' [%s inconclusive]' % inc if int(inc) else ''))
    rows.append((name, meta.get('change', '')[:110], '; '.join(caught) or '-', '; '.join(missed) or '-'))
print('| seed | change | caught by | not caught by |')
print('|------|--------|-----------|---------------|')
for r in rows:
    print('| %s | %s | %s | %s |' % r)

#!/bin/bash
# usage: tools/run_seeded.sh <seed-name> [PROP ...]   applies seeded/<name>/patch.diff to /repo, runs the quick checks, undoes it
# result lines go to seeded/<name>/detection.txt
set -u
cd "$(dirname "$0")/.."
NAME=$1; shift
PROPS="$@"
[ -z "$PROPS" ] && PROPS=$(python3 -c "import json;print(json.load(open('seeded/$NAME/meta.json'))['property'])")
git -C /repo status --porcelain | grep -q . && { echo "/repo is not clean"; exit 2; }
git -C /repo apply "$PWD/seeded/$NAME/patch.diff" || { echo "patch does not apply"; exit 2; }
OUT=seeded/$NAME/detection.txt
: > $OUT
for P in $PROPS; do
  ./check run $P > /var/tmp/det_$NAME_$P.log 2>&1; RC=$?
  echo "$P exit=$RC $(grep -c '^VIOLATION property='$P /var/tmp/det_$NAME_$P.log) violation-lines; $(grep '^VIOLATION\|tag=' /var/tmp/det_$NAME_$P.log | head -4 | tr '\n' ' ' | cut -c1-400)" >> $OUT
done
git -C /repo checkout -- .
cat $OUT

#!/bin/bash
# usage: tools/recheck_suite.sh <seed-name>...   re-runs the repository suite with the seeded change in a scratch worktree (for seeds whose
# confirmation run only failed the load-sensitive test_on_ready_counter_is_synchronized) and records the result in meta.json
cd "$(dirname "$0")/.."
for NAME in "$@"; do
  WT=/var/tmp/recheck-$NAME
  git -C /repo worktree remove --force $WT >/dev/null 2>&1; rm -rf $WT
  git -C /repo worktree add --detach $WT HEAD >/dev/null 2>&1
  ( cd $WT && git apply /verif/seeded/$NAME/patch.diff && timeout 900 /venv/bin/python -m pytest -ra -q -p no:cacheprovider --timeout=900 --continue-on-collection-errors 2>&1 | grep -E " passed| failed" | tail -1 ) > /var/tmp/recheck-$NAME.txt
  git -C /repo worktree remove --force $WT >/dev/null 2>&1; rm -rf $WT
  python3 - "$NAME" "$(cat /var/tmp/recheck-$NAME.txt)" <<'PY'
import json,sys
p='/verif/seeded/%s/meta.json'%sys.argv[1]; d=json.load(open(p))
d['confirmed_by_me']['suite_with_change_rerun_on_a_quiet_machine']=sys.argv[2]
json.dump(d,open(p,'w'),indent=1); print(sys.argv[1], sys.argv[2])
PY
done

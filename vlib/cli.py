import argparse
import os
import sys


def main():
    ap = argparse.ArgumentParser(prog='check')
    sub = ap.add_subparsers(dest='cmd')
    sub.add_parser('setup')
    sub.add_parser('list')
    r = sub.add_parser('run')
    r.add_argument('prop')
    r.add_argument('--tier', default=os.environ.get('VERIF_TIER') or 'quick', choices=['quick', 'thorough'])
    r.add_argument('--only', default=None, help='comma separated obligation names (debugging)')
    p = sub.add_parser('replay')
    p.add_argument('path')
    a = ap.parse_args()
    if a.cmd == 'setup':
        import crosshair, z3  # noqa
        print('setup ok: crosshair', crosshair.__version__, 'z3', z3.get_version_string())
        return 0
    from vlib import registry, runner
    if a.cmd == 'list':
        for pid, spec in sorted(registry.SPECS.items()):
            print(pid, len(spec['obligations']), 'obligations')
        return 0
    if a.cmd == 'run':
        spec = registry.SPECS.get(a.prop)
        if spec is None:
            print('unknown or not-applicable property', a.prop)
            return 2
        if a.only:
            names = set(a.only.split(','))
            spec = dict(spec)
            spec['obligations'] = [o for o in spec['obligations'] if o['name'] in names or o.get('twin_of') in names]
        try:
            seed = int(os.environ.get('VERIF_SEED', '0') or 0)
        except ValueError:
            seed = 0
        return runner.run_property(a.prop, spec, a.tier, seed)
    if a.cmd == 'replay':
        return runner.replay_file(a.path)
    ap.print_help()
    return 2


if __name__ == '__main__':
    sys.exit(main())

"""E2 back end: bounded model checking of thread programs (vlib/py2ts.py
instruction lists) with z3 bit-vectors.  One symbolic scheduler choice per step;
thread-local instructions are fused into the preceding visible operation, so the
scheduling points are exactly the semaphore / mutex / shared-variable
operations; a blocking timed acquire may give up at any step at which the value
is zero (a free Boolean per step); stuttering only when no thread is enabled."""
import time
import z3

W = 6
PCW = 9          # program counters: programs of up to 511 instructions


def BV(name):
    return z3.BitVec(name, W)


def BVV(v):
    return z3.BitVecVal(v, W)


def PCV(v):
    return z3.BitVecVal(v, PCW)


VISIBLE = ('sem_acq', 'sem_rel', 'sem_clear', 'lock_acq', 'lock_rel', 'sh_read', 'sh_write', 'sh_add')


class System:
    def __init__(self, threads, sems, locks, shared=None, ghosts=None, syms=None):
        """threads: list of linked programs; sems/locks/shared: {name: initial value};
        ghosts: {name: initial value} (global, updated by 'ghost' annotations);
        syms: {name: None} scenario constants chosen by the solver (one z3 variable each)"""
        self.threads = threads
        self.sems = dict(sems)
        self.locks = dict(locks)
        self.shared = dict(shared or {})
        self.ghosts = dict(ghosts or {})
        self.syms = {n: BV('sym_' + n) for n in (syms or {})}
        self.locals = []
        for prog in threads:
            assert len(prog) < 2 ** PCW, 'program too long for the pc width'
            names = set()
            for ins in prog:
                if ins[0] == 'set':
                    names.add(ins[1])
                elif ins[0] == 'sem_acq' and ins[4]:
                    names.add(ins[4])
                elif ins[0] == 'sh_read':
                    names.add(ins[2])
            names.add('$ret')
            self.locals.append(sorted(names))

    # -- expression evaluation --------------------------------------------------
    def ev(self, e, loc, st, tid):
        k = e[0]
        if k == 'const':
            return BVV(e[1])
        if k == 'loc':
            if e[1] not in loc:
                raise KeyError('local %s read before assignment' % e[1])
            return loc[e[1]]
        if k == 'sym':
            return self.syms[e[1]]
        if k == 'mine':
            return z3.If(st['lock'][e[1]] == BVV(tid + 1), BVV(1), BVV(0))
        if k == 'semzero':
            return z3.If(st['sem'][e[1]] == BVV(0), BVV(1), BVV(0))
        if k == 'not':
            return z3.If(self.tr(e[1], loc, st, tid), BVV(0), BVV(1))
        if k in ('and', 'or'):
            a, b = self.tr(e[1], loc, st, tid), self.tr(e[2], loc, st, tid)
            return z3.If(z3.And(a, b) if k == 'and' else z3.Or(a, b), BVV(1), BVV(0))
        if k in ('lt', 'le', 'eq', 'ne', 'gt', 'ge'):
            a, b = self.ev(e[1], loc, st, tid), self.ev(e[2], loc, st, tid)
            c = {'lt': z3.ULT, 'le': z3.ULE, 'gt': z3.UGT, 'ge': z3.UGE, 'eq': lambda x, y: x == y, 'ne': lambda x, y: x != y}[k](a, b)
            return z3.If(c, BVV(1), BVV(0))
        if k == 'add':
            return self.ev(e[1], loc, st, tid) + self.ev(e[2], loc, st, tid)
        if k == 'sub':
            return self.ev(e[1], loc, st, tid) - self.ev(e[2], loc, st, tid)
        raise ValueError(e)

    def tr(self, e, loc, st, tid):
        return self.ev(e, loc, st, tid) != BVV(0)

    # -- fused local tail -----------------------------------------------------------
    def tail(self, tid, pc, loc, err, st, depth=0):
        """run local instructions from concrete pc with symbolic locals until the next visible one;
        returns (pc_expr, locals, err_expr)"""
        if depth > 400:
            raise RuntimeError('local loop without a visible operation in thread %d at pc %d' % (tid, pc))
        prog = self.threads[tid]
        ins = prog[pc]
        op = ins[0]
        if op in VISIBLE or op == 'end':
            return PCV(pc), loc, err
        if op == 'jmp':
            return self.tail(tid, ins[1], loc, err, st, depth + 1)
        if op == 'set':
            loc2 = dict(loc)
            loc2[ins[1]] = self.ev(ins[2], loc, st, tid)
            return self.tail(tid, pc + 1, loc2, err, st, depth + 1)
        if op == 'assert':
            ok = self.tr(ins[1], loc, st, tid)
            return self.tail(tid, pc + 1, loc, z3.Or(err, z3.Not(ok)), st, depth + 1)
        if op == 'ret':
            loc2 = dict(loc)
            loc2['$ret'] = self.ev(ins[1], loc, st, tid)
            return PCV(len(prog) - 1), loc2, err
        if op == 'mark':
            return self.tail(tid, pc + 1, loc, err, st, depth + 1)
        if op == 'br':
            c = z3.simplify(self.tr(ins[1], loc, st, tid))
            if z3.is_true(c):
                return self.tail(tid, ins[2], loc, err, st, depth + 1)
            if z3.is_false(c):
                return self.tail(tid, ins[3], loc, err, st, depth + 1)
            p1, l1, e1 = self.tail(tid, ins[2], loc, err, st, depth + 1)
            p2, l2, e2 = self.tail(tid, ins[3], loc, err, st, depth + 1)
            keys = set(l1) | set(l2)
            lm = {}
            for k in keys:
                a, b = l1.get(k), l2.get(k)
                if a is None:
                    a = BVV(0)
                if b is None:
                    b = BVV(0)
                lm[k] = a if a is b else z3.If(c, a, b)
            return z3.If(c, p1, p2), lm, z3.If(c, e1, e2)
        raise ValueError(ins)

    # -- states -----------------------------------------------------------------------
    def fresh(self, t):
        st = {'sem': {n: BV('s_%s_%d' % (n, t)) for n in self.sems},
              'lock': {n: BV('l_%s_%d' % (n, t)) for n in self.locks},
              'sh': {n: BV('v_%s_%d' % (n, t)) for n in self.shared},
              'gh': {n: BV('g_%s_%d' % (n, t)) for n in self.ghosts},
              'pc': [z3.BitVec('pc%d_%d' % (i, t), PCW) for i in range(len(self.threads))],
              'loc': [{v: BV('x%d_%s_%d' % (i, v, t)) for v in self.locals[i]} for i in range(len(self.threads))],
              'err': z3.Bool('err_%d' % t)}
        return st

    def eq_state(self, a, b, skip_thread=None, skip=()):
        eqs = []
        for grp in ('sem', 'lock', 'sh', 'gh'):
            if grp in skip:
                continue
            for n in a[grp]:
                eqs.append(a[grp][n] == b[grp][n])
        for j in range(len(self.threads)):
            if j == skip_thread:
                continue
            eqs.append(a['pc'][j] == b['pc'][j])
            for v in self.locals[j]:
                eqs.append(a['loc'][j][v] == b['loc'][j][v])
        return eqs

    def build(self, K, sym_constraints=()):
        s = z3.SolverFor('QF_BV')
        S0 = self.fresh(0)
        for n, v in self.sems.items():
            s.add(S0['sem'][n] == BVV(v))
        for n, v in self.locks.items():
            s.add(S0['lock'][n] == BVV(v))
        for n, v in self.shared.items():
            s.add(S0['sh'][n] == (BVV(v) if isinstance(v, int) else v))
        for n, v in self.ghosts.items():
            s.add(S0['gh'][n] == BVV(v))
        err0 = z3.BoolVal(False)
        for i in range(len(self.threads)):
            zero = {v: BVV(0) for v in self.locals[i]}
            pc0, l0, err0 = self.tail(i, 0, zero, err0, S0)
            s.add(S0['pc'][i] == pc0)
            for v in self.locals[i]:
                s.add(S0['loc'][i][v] == l0.get(v, BVV(0)))
        s.add(S0['err'] == err0)
        for c in sym_constraints:
            s.add(c)
        states = [S0]
        scheds = []
        fires = []
        nT = len(self.threads)
        for t in range(K):
            cur = states[-1]
            nxt = self.fresh(t + 1)
            sched = z3.BitVec('sched_%d' % t, 4)
            fire = z3.Bool('fire_%d' % t)
            scheds.append(sched)
            fires.append(fire)
            trans = []
            enabled_any = []
            for i, prog in enumerate(self.threads):
                for pc, ins in enumerate(prog):
                    op = ins[0]
                    if op not in VISIBLE:
                        continue
                    sem = dict(cur['sem'])
                    lock = dict(cur['lock'])
                    sh = dict(cur['sh'])
                    gh = dict(cur['gh'])
                    loc = dict(cur['loc'][i])
                    err = cur['err']
                    en = z3.BoolVal(True)
                    en_nofire = z3.BoolVal(True)
                    if op == 'sem_acq':
                        _, n, blocking, timed, dst = ins[:5]
                        pos = z3.UGT(cur['sem'][n], BVV(0))
                        sem[n] = z3.If(pos, cur['sem'][n] - 1, cur['sem'][n])
                        if blocking and not timed:
                            en = pos
                            en_nofire = pos
                        elif blocking and timed:
                            en = z3.Or(pos, fire)
                        if dst:
                            loc[dst] = z3.If(pos, BVV(1), BVV(0))
                    elif op == 'sem_rel':
                        n = ins[1]
                        sem[n] = cur['sem'][n] + 1
                        err = z3.Or(err, cur['sem'][n] == BVV(2 ** W - 1))
                    elif op == 'sem_clear':
                        sem[ins[1]] = BVV(0)           # buffer.clear(): a counting object emptied in one step
                    elif op == 'lock_acq':
                        n = ins[1]
                        free = cur['lock'][n] == BVV(0)
                        en = free
                        en_nofire = free
                        lock[n] = BVV(i + 1)
                    elif op == 'lock_rel':
                        n = ins[1]
                        err = z3.Or(err, cur['lock'][n] != BVV(i + 1))
                        lock[n] = BVV(0)
                    elif op == 'sh_read':
                        loc[ins[2]] = cur['sh'][ins[1]]
                    elif op == 'sh_write':
                        sh[ins[1]] = self.ev(ins[2], loc, cur, i)
                    elif op == 'sh_add':
                        sh[ins[1]] = cur['sh'][ins[1]] + BVV(ins[2])
                    ann = ins[-1] if isinstance(ins[-1], dict) else None
                    if ann:
                        view = {'sem': sem, 'lock': lock, 'sh': sh, 'gh': cur['gh'], 'loc': loc, 'pre': cur}
                        for gname, fn in ann.items():
                            gh[gname] = fn(view)
                    mid = {'sem': sem, 'lock': lock, 'sh': sh, 'gh': gh}
                    npc, nloc, nerr = self.tail(i, pc + 1, loc, err, mid)
                    eqs = [nxt['sem'][n] == sem[n] for n in sem] + [nxt['lock'][n] == lock[n] for n in lock] \
                        + [nxt['sh'][n] == sh[n] for n in sh] + [nxt['gh'][n] == gh[n] for n in gh] \
                        + [nxt['loc'][i][v] == nloc.get(v, BVV(0)) for v in self.locals[i]] + [nxt['pc'][i] == npc, nxt['err'] == nerr]
                    for j in range(nT):
                        if j != i:
                            eqs.append(nxt['pc'][j] == cur['pc'][j])
                            eqs += [nxt['loc'][j][v] == cur['loc'][j][v] for v in self.locals[j]]
                    trans.append(z3.And(sched == i, cur['pc'][i] == PCV(pc), en, *eqs))
                    enabled_any.append(z3.And(cur['pc'][i] == PCV(pc), en_nofire if not (op == 'sem_acq' and ins[2] and ins[3]) else z3.BoolVal(True)))
            stutter = z3.And(sched == 15, z3.Not(z3.Or(*enabled_any)) if enabled_any else z3.BoolVal(True),
                             nxt['err'] == cur['err'], *self.eq_state(nxt, cur))
            s.add(z3.Or(stutter, *trans))
            states.append(nxt)
        self.enabled_last = None
        return s, states, scheds, fires

    def some_enabled(self, st):
        """is any thread enabled in state st (timed acquires count as enabled)"""
        alts = []
        for i, prog in enumerate(self.threads):
            for pc, ins in enumerate(prog):
                op = ins[0]
                if op not in VISIBLE:
                    continue
                en = z3.BoolVal(True)
                if op == 'sem_acq' and ins[2] and not ins[3]:
                    en = z3.UGT(st['sem'][ins[1]], BVV(0))
                elif op == 'lock_acq':
                    en = st['lock'][ins[1]] == BVV(0)
                alts.append(z3.And(st['pc'][i] == PCV(pc), en))
        return z3.Or(*alts) if alts else z3.BoolVal(False)

    def ended(self, st, i):
        return st['pc'][i] == PCV(len(self.threads[i]) - 1)

    def at(self, st, i, pcs):
        return z3.Or(*[st['pc'][i] == PCV(p) for p in pcs]) if pcs else z3.BoolVal(False)


STATS = {'queries': 0, 'time': 0.0, 'states': 0, 'transitions': 0}


def solve(solver, timeout_s):
    solver.set('timeout', int(timeout_s * 1000))
    t0 = time.perf_counter()
    r = str(solver.check())
    STATS['queries'] += 1
    STATS['time'] += time.perf_counter() - t0
    return r


def check_property(system, K, bad_fn, sym_constraints=(), timeout_s=600):
    """bad_fn(states) -> z3 Bool describing a violation.  Returns dict with status:
    holds (unsat + unwinding unsat) | violated (model) | inconclusive"""
    s, states, scheds, fires = system.build(K, sym_constraints)
    STATS['states'] += (K + 1)
    STATS['transitions'] += K * sum(1 for p in system.threads for i in p if i[0] in VISIBLE)
    s.push()
    s.add(bad_fn(states))
    r = solve(s, timeout_s)
    out = {'K': K, 'result': r}
    if r == 'sat':
        m = s.model()
        sched = []
        for t in range(K):
            v = m.eval(scheds[t], model_completion=True).as_long()
            f = z3.is_true(m.eval(fires[t], model_completion=True))
            pcs = [m.eval(states[t]['pc'][i], model_completion=True).as_long() for i in range(len(system.threads))]
            sems_after = {n: m.eval(x, model_completion=True).as_long() for n, x in states[t + 1]['sem'].items()}
            sched.append({'thread': v, 'fire': f, 'pcs': pcs, 'sems_after': sems_after})
        out['schedule'] = sched
        out['syms'] = {n: m.eval(v, model_completion=True).as_long() for n, v in system.syms.items()}
        out['final'] = {'pcs': [m.eval(states[K]['pc'][i], model_completion=True).as_long() for i in range(len(system.threads))],
                        'sem': {n: m.eval(v, model_completion=True).as_long() for n, v in states[K]['sem'].items()},
                        'ret': [m.eval(states[K]['loc'][i]['$ret'], model_completion=True).as_long() for i in range(len(system.threads))]}
        out['status'] = 'violated'
        s.pop()
        return out
    s.pop()
    if r != 'unsat':
        out['status'] = 'inconclusive'
        return out
    # unwinding assertion: at depth K nothing is enabled any more
    s.push()
    s.add(system.some_enabled(states[K]))
    r2 = solve(s, timeout_s)
    s.pop()
    out['unwinding'] = r2
    out['status'] = 'holds' if r2 == 'unsat' else 'inconclusive'
    if r2 == 'sat':
        out['why'] = 'bound K=%d too small: a thread is still enabled at the last step' % K
    return out

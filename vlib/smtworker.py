"""Runs one SMT / stub-validation obligation in its own process.

  python -m vlib.smtworker <module> <function> <out.json>

The function takes the tier name and returns a dict with at least `status`
(confirmed | refuted | unknown | error); see vlib/runner.py for the other keys.
"""
import importlib
import json
import os
import sys
import time
import traceback

REPO = os.environ.get('VERIF_REPO', '/repo')
sys.path.insert(0, REPO)
HERE = os.path.dirname(os.path.dirname(os.path.abspath(__file__)))
if HERE not in sys.path:
    sys.path.insert(1, HERE)


def main():
    modname, fname, out = sys.argv[1:4]
    t0 = time.time()
    try:
        mod = importlib.import_module(modname)
        res = getattr(mod, fname)(os.environ.get('VERIF_TIER', 'quick'))
        if not isinstance(res, dict) or 'status' not in res:
            res = {'status': 'error', 'messages': ['bad result %r' % (res,)]}
    except BaseException:
        res = {'status': 'error', 'messages': [traceback.format_exc()]}
    res['wall_s'] = round(time.time() - t0, 3)
    res['repo'] = REPO
    with open(out, 'w') as f:
        json.dump(res, f)
    sys.stdout.flush()
    os._exit(0)


if __name__ == '__main__':
    main()

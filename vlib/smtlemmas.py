"""SMT obligations callable through vlib.smtworker (tier name in, result dict out)."""
from vlib import smt


def l_roundup(tier):
    return smt.lemma_roundup()


def i_restart(tier):
    return smt.lemma_restart()


def l_clock(tier):
    return smt.lemma_clock_kernels()

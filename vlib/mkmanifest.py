"""Regenerates MANIFEST.json from the registry (run: ./check-manifest or python -m vlib.mkmanifest)."""
import json
import os
from vlib import registry

HERE = os.path.dirname(os.path.dirname(os.path.abspath(__file__)))
ALL = ['C%02d' % i for i in range(1, 21)]


def main():
    checks = []
    for pid in ALL:
        spec = registry.SPECS.get(pid)
        if not spec or not spec.get('claimed', True):
            continue
        checks.append({
            'property_id': pid,
            'quick_cmd': './check run %s --tier quick' % pid,
            'thorough_cmd': './check run %s --tier thorough' % pid,
            'evidence_file': 'evidence/%s.json' % pid,
            'replay_cmd_template': './check replay {path}',
            'engine': spec.get('engine', 'E1 CrossHair harness over the real code'),
            'level_claimed': {
                'category': spec.get('level', 'other'),
                'text': spec.get('level_text', spec['explanation']),
                'design_ref': spec.get('design_ref', 'DESIGN.md section 4, ' + pid),
            },
            'level_note': spec.get('level_note', '; '.join(spec.get('assumptions', []))),
            'technique': spec.get('technique', 'bounded symbolic execution of the real Python code (CrossHair + z3)'),
        })
    na = []
    for pid in ALL:
        if pid in registry.NOT_APPLICABLE:
            na.append({'property_id': pid, 'reason': registry.NOT_APPLICABLE[pid]})
        elif pid not in registry.SPECS:
            na.append({'property_id': pid, 'reason': 'check not built yet in this round (planned, see DESIGN.md section 4)'})
    man = {
        'version': 1,
        'setup_cmd': './check setup',
        'hooks': {
            'guard': 'BILLIARD_VERIF',
            'enable': 'no source hooks: harnesses reach the code by constructor injection, module-global rebinding and AST '
                      'rewriting of source read from /repo at run time',
            'baseline_off_cmd': 'cd /repo && /venv/bin/python -m pytest -ra -q -p no:cacheprovider --timeout=900 '
                                '--continue-on-collection-errors',
            'source_commits': [],
            'add_only': True,
        },
        'engines': registry.ENGINES,
        'checks': checks,
        'not_applicable': na,
        'notes': 'All checks are solver-based (CrossHair/z3, cvc5 cross-checks); verdict classes and bounds in DESIGN.md. '
                 'Exit 3 = HARNESS-ERROR (a counterexample that does not replay natively, or a translator failure).',
    }
    with open(os.path.join(HERE, 'MANIFEST.json'), 'w') as f:
        json.dump(man, f, indent=1)
    print('MANIFEST.json:', len(checks), 'checks,', len(na), 'not applicable')


if __name__ == '__main__':
    main()

"""E3: loop-free Python functions -> z3 terms (merging symbolic interpreter over
the AST of the *current* source under $VERIF_REPO), lemmas and inductive steps
discharged by z3 and cross-checked with the cvc5 binary through SMT-LIB2."""
import ast
import os
import subprocess
import tempfile
import textwrap
import time

import z3

REPO = os.environ.get('VERIF_REPO', '/repo')


class Unsupported(Exception):
    pass


def find_function(relpath, qualname):
    """AST of a function/method in the repository's current source text"""
    path = os.path.join(REPO, relpath)
    with open(path) as f:
        src = f.read()
    tree = ast.parse(src)
    parts = qualname.split('.')
    node = tree
    for p in parts:
        found = None
        for ch in ast.walk(node) if node is tree else ast.iter_child_nodes(node):
            if isinstance(ch, (ast.FunctionDef, ast.ClassDef)) and ch.name == p:
                found = ch
                break
        if found is None:
            raise Unsupported('%s not found in %s' % (qualname, relpath))
        node = found
    return node, ast.get_source_segment(src, node)


class Interp:
    """Evaluates a loop-free function body over z3 terms.  `sort` in
    {'bv64','bv32','int','real'} selects the arithmetic.  State is a dict name ->
    term; attribute targets `self.x` are keys 'self.x'.  Control flow is merged
    with If(); `return` and `raise` set the special keys '$ret', '$returned',
    '$raised'."""

    def __init__(self, sort='int', calls=None, consts=None):
        self.sort = sort
        self.calls = calls or {}
        self.consts = consts or {}

    # -- values ---------------------------------------------------------------
    def const(self, v):
        if isinstance(v, bool):
            return z3.BoolVal(v)
        if self.sort == 'bv64':
            return z3.BitVecVal(v, 64)
        if self.sort == 'bv32':
            return z3.BitVecVal(v, 32)
        if self.sort == 'real':
            return z3.RealVal(v)
        return z3.IntVal(v)

    def truth(self, t):
        if z3.is_bool(t):
            return t
        if t is None:
            return z3.BoolVal(False)
        return t != self.const(0)

    def ite(self, c, a, b):
        if a is b:
            return a
        if a is None or b is None:
            # None-valued variables: carry an explicit is-None flag instead
            raise Unsupported('merging None with a value; model the None-ness explicitly')
        if z3.is_bool(a) != z3.is_bool(b):
            a, b = self.truth(a) if z3.is_bool(b) else a, self.truth(b) if z3.is_bool(a) else b
        return z3.If(c, a, b)

    # -- expressions ----------------------------------------------------------
    def expr(self, n, st):
        if isinstance(n, ast.Constant):
            if n.value is None:
                return None
            if isinstance(n.value, (int, bool)):
                return self.const(n.value)
            if isinstance(n.value, float):
                if self.sort != 'real':
                    raise Unsupported('float constant in %s arithmetic' % self.sort)
                return z3.RealVal(repr(n.value))
            raise Unsupported('constant %r' % (n.value,))
        if isinstance(n, ast.Name):
            if n.id in st:
                return st[n.id]
            if n.id in self.consts:
                return self.const(self.consts[n.id])
            raise Unsupported('unknown name %s' % n.id)
        if isinstance(n, ast.Attribute):
            key = self.attr_key(n)
            if key in st:
                return st[key]
            if key in self.consts:
                return self.const(self.consts[key])
            raise Unsupported('unknown attribute %s' % key)
        if isinstance(n, ast.BinOp):
            a, b = self.expr(n.left, st), self.expr(n.right, st)
            op = n.op
            bv = self.sort.startswith('bv')
            if isinstance(op, ast.Add):
                return a + b
            if isinstance(op, ast.Sub):
                return a - b
            if isinstance(op, ast.Mult):
                return a * b
            if isinstance(op, ast.FloorDiv):
                return z3.UDiv(a, b) if bv else a / b
            if isinstance(op, ast.Mod):
                return z3.URem(a, b) if bv else a % b
            if bv and isinstance(op, ast.BitAnd):
                return a & b
            if bv and isinstance(op, ast.BitOr):
                return a | b
            if bv and isinstance(op, ast.BitXor):
                return a ^ b
            if bv and isinstance(op, ast.LShift):
                return a << b
            if bv and isinstance(op, ast.RShift):
                return z3.LShR(a, b)
            raise Unsupported('operator %s in %s arithmetic' % (type(op).__name__, self.sort))
        if isinstance(n, ast.UnaryOp):
            v = self.expr(n.operand, st)
            if isinstance(n.op, ast.Not):
                return z3.Not(self.truth_node(n.operand, st))
            if isinstance(n.op, ast.USub):
                return -v
            if isinstance(n.op, ast.Invert) and self.sort.startswith('bv'):
                return ~v
            raise Unsupported('unary %s' % type(n.op).__name__)
        if isinstance(n, ast.BoolOp):
            vals = [self.truth_node(v, st) for v in n.values]
            return z3.And(*vals) if isinstance(n.op, ast.And) else z3.Or(*vals)
        if isinstance(n, ast.Compare) and len(n.ops) == 1 and isinstance(n.ops[0], (ast.Is, ast.IsNot)) \
                and isinstance(n.comparators[0], ast.Constant) and n.comparators[0].value is None:
            key = n.left.id if isinstance(n.left, ast.Name) else self.attr_key(n.left)
            flag = st.get(key + '$none')
            if flag is None:
                raise Unsupported('None-ness of %s is not modelled' % key)
            return flag if isinstance(n.ops[0], ast.Is) else z3.Not(flag)
        if isinstance(n, ast.Compare):
            left = self.expr(n.left, st)
            out = []
            for op, rn in zip(n.ops, n.comparators):
                right = self.expr(rn, st)
                out.append(self.compare(op, left, right))
                left = right
            return z3.And(*out) if len(out) > 1 else out[0]
        if isinstance(n, ast.IfExp):
            c = self.truth_node(n.test, st)
            return self.ite(c, self.expr(n.body, st), self.expr(n.orelse, st))
        if isinstance(n, ast.Call):
            name = self.call_name(n.func)
            if name in self.calls:
                return self.calls[name](self, [self.expr(a, st) for a in n.args], st)
            if name == 'max' and len(n.args) == 2:
                a, b = [self.expr(x, st) for x in n.args]
                return z3.If(self.ge(a, b), a, b)
            if name == 'min' and len(n.args) == 2:
                a, b = [self.expr(x, st) for x in n.args]
                return z3.If(self.ge(a, b), b, a)
            raise Unsupported('call %s' % name)
        if isinstance(n, ast.Tuple):
            return tuple(self.expr(e, st) for e in n.elts)
        raise Unsupported(type(n).__name__)

    def truth_node(self, n, st):
        """truth value of an expression node; a variable with a None flag is falsy when None"""
        v = self.truth(self.expr(n, st))
        key = None
        if isinstance(n, ast.Name):
            key = n.id
        elif isinstance(n, ast.Attribute):
            key = self.attr_key(n)
        if key is not None and (key + '$none') in st:
            return z3.And(z3.Not(st[key + '$none']), v)
        return v

    def ge(self, a, b):
        return z3.UGE(a, b) if self.sort.startswith('bv') else a >= b

    def compare(self, op, a, b):
        bv = self.sort.startswith('bv')
        if isinstance(op, (ast.Is, ast.IsNot)):
            # `x is None` with x tracked by an explicit flag '<name>$none'
            raise Unsupported('identity comparison; model None-ness explicitly')
        if isinstance(op, ast.Eq):
            return a == b
        if isinstance(op, ast.NotEq):
            return a != b
        if isinstance(op, ast.Lt):
            return z3.ULT(a, b) if bv else a < b
        if isinstance(op, ast.LtE):
            return z3.ULE(a, b) if bv else a <= b
        if isinstance(op, ast.Gt):
            return z3.UGT(a, b) if bv else a > b
        if isinstance(op, ast.GtE):
            return z3.UGE(a, b) if bv else a >= b
        raise Unsupported('comparison %s' % type(op).__name__)

    def attr_key(self, n):
        if isinstance(n.value, ast.Name):
            return '%s.%s' % (n.value.id, n.attr)
        if isinstance(n.value, ast.Attribute):
            return '%s.%s' % (self.attr_key(n.value), n.attr)
        raise Unsupported('attribute base')

    def call_name(self, f):
        if isinstance(f, ast.Name):
            return f.id
        if isinstance(f, ast.Attribute):
            return self.attr_key(f)
        raise Unsupported('call target')

    # -- statements -----------------------------------------------------------
    def block(self, stmts, st, live):
        """run statements under the path predicate `live` (a Bool term)"""
        for s in stmts:
            st, live = self.stmt(s, st, live)
        return st, live

    def assign(self, target, val, st, live):
        if isinstance(target, ast.Name):
            key = target.id
        elif isinstance(target, ast.Attribute):
            key = self.attr_key(target)
        elif isinstance(target, ast.Tuple):
            if not isinstance(val, tuple) or len(val) != len(target.elts):
                raise Unsupported('tuple assignment')
            for t, v in zip(target.elts, val):
                st = self.assign(t, v, st, live)
            return st
        else:
            raise Unsupported('assignment target')
        st = dict(st)
        if (key + '$none') in st:
            st[key + '$none'] = z3.And(st[key + '$none'], z3.Not(live)) if val is not None else z3.Or(st[key + '$none'], live)
        if val is None:
            return st
        old = st.get(key)
        if old is None or z3.is_true(live):
            st[key] = val if (old is None or z3.is_true(live)) else old
            if old is not None and not z3.is_true(live):
                st[key] = self.ite(live, val, old)
        else:
            st[key] = self.ite(live, val, old)
        return st

    def stmt(self, s, st, live):
        if isinstance(s, ast.Expr):
            if isinstance(s.value, ast.Constant):
                return st, live          # docstring
            self.expr(s.value, st)       # calls with modelled effects only
            return st, live
        if isinstance(s, ast.Pass):
            return st, live
        if isinstance(s, ast.Assign):
            val = self.expr(s.value, st)
            for t in s.targets:
                st = self.assign(t, val, st, live)
            return st, live
        if isinstance(s, ast.AugAssign):
            cur = self.expr(s.target, st)
            val = self.expr(ast.BinOp(left=s.target, op=s.op, right=s.value), st)
            return self.assign(s.target, val, st, live), live
        if isinstance(s, ast.Return):
            val = self.expr(s.value, st) if s.value is not None else None
            st = dict(st)
            if val is not None:
                st['$ret'] = val if '$ret' not in st else self.ite(live, val, st['$ret'])
            st['$returned'] = z3.Or(st.get('$returned', z3.BoolVal(False)), live)
            return st, z3.BoolVal(False)
        if isinstance(s, ast.Raise):
            st = dict(st)
            st['$raised'] = z3.Or(st.get('$raised', z3.BoolVal(False)), live)
            return st, z3.BoolVal(False)
        if isinstance(s, ast.If):
            c = self.truth_node(s.test, st)
            st1, live1 = self.block(s.body, st, z3.And(live, c))
            st2, live2 = self.block(s.orelse, st, z3.And(live, z3.Not(c)))
            out = {}
            for k in set(st1) | set(st2):
                a, b = st1.get(k, st.get(k)), st2.get(k, st.get(k))
                if a is None:
                    out[k] = b
                elif b is None:
                    out[k] = a
                elif k in ('$returned', '$raised'):
                    out[k] = z3.Or(a, b)
                else:
                    out[k] = a if a is b else self.ite(c, a, b)
            return out, z3.Or(live1, live2)
        raise Unsupported('statement %s' % type(s).__name__)

    def run(self, fn_node, st):
        st, live = self.block(fn_node.body, dict(st), z3.BoolVal(True))
        st['$live'] = live
        st.setdefault('$returned', z3.BoolVal(False))
        st.setdefault('$raised', z3.BoolVal(False))
        return st


# -----------------------------------------------------------------------------
# discharging

STATS = {'queries': 0, 'time': 0.0}


def check(solver, timeout_s=120):
    solver.set('timeout', int(timeout_s * 1000))
    t0 = time.perf_counter()
    r = solver.check()
    STATS['queries'] += 1
    STATS['time'] += time.perf_counter() - t0
    return str(r)


def cvc5_check(smt2_text, timeout_s=120, logic=None):
    """run the cvc5 binary on an SMT-LIB2 query; returns sat/unsat/unknown/error"""
    with tempfile.NamedTemporaryFile('w', suffix='.smt2', delete=False, dir=os.environ.get('VERIF_SCRATCH', '/var/tmp')) as f:
        if logic:
            f.write('(set-logic %s)\n' % logic)
        f.write(smt2_text)
        if '(check-sat)' not in smt2_text:
            f.write('\n(check-sat)\n')
        path = f.name
    try:
        t0 = time.perf_counter()
        p = subprocess.run(['cvc5', '--tlimit=%d' % int(timeout_s * 1000), path], stdout=subprocess.PIPE, stderr=subprocess.STDOUT,
                           timeout=timeout_s + 30)
        STATS['queries'] += 1
        STATS['time'] += time.perf_counter() - t0
        out = p.stdout.decode('utf8', 'replace')
        if '(error' in out or 'rror' in out.split('\n')[0]:
            return 'error: ' + out[:300]
        for line in out.split('\n'):
            line = line.strip()
            if line in ('sat', 'unsat', 'unknown'):
                return line
        return 'unknown'
    except subprocess.TimeoutExpired:
        return 'unknown'
    finally:
        os.unlink(path)


def discharge(name, negated_claim, assumptions=(), cross=True, timeout_s=120):
    """unsat(assumptions and negated_claim) <=> the claim holds.  Returns a dict."""
    s = z3.Solver()
    for a in assumptions:
        s.add(a)
    s.add(negated_claim)
    r = check(s, timeout_s)
    out = {'name': name, 'z3': r}
    if r == 'sat':
        m = s.model()
        out['model'] = {str(d): str(m[d]) for d in m.decls()}
    if cross:
        out['cvc5'] = cvc5_check(s.to_smt2(), timeout_s)
    return out


def verdict(results, witnesses=()):
    """all lemma queries unsat in z3 (and not contradicted by cvc5), all witness queries sat"""
    bad = [r for r in results if r['z3'] == 'sat']
    unk = [r for r in results if r['z3'] not in ('sat', 'unsat')]
    disagree = [r for r in results if r.get('cvc5') in ('sat', 'unsat') and r['z3'] in ('sat', 'unsat') and r['cvc5'] != r['z3']]
    err = [r for r in results if str(r.get('cvc5', '')).startswith('error')]
    wbad = [w for w in witnesses if w['z3'] != 'sat']
    status = 'confirmed'
    if disagree or err:
        status = 'error'
    elif bad:
        status = 'refuted'
    elif unk or wbad:
        status = 'unknown'
    return {'status': status, 'solver_queries': STATS['queries'], 'solver_time_s': round(STATS['time'], 3),
            'detail': {'lemmas': results, 'witnesses': list(witnesses)}, 'nontrivial_witness': bool(witnesses) and not wbad,
            'samples': [r['name'] for r in results][:3],
            'messages': ['solver disagreement or error: %r' % (disagree + err)] if (disagree or err) else []}


# -----------------------------------------------------------------------------
# L-roundup (C14)

def lemma_roundup():
    node, src = find_function('billiard/heap.py', 'Heap._roundup')
    results = []
    witnesses = []
    for a in (8, 64, 4096, 65536):
        it = Interp('bv64')
        n = z3.BitVec('n', 64)
        st = it.run(node, {'n': n, 'alignment': z3.BitVecVal(a, 64)})
        res = st['$ret']
        A = z3.BitVecVal(a, 64)
        ref = z3.UDiv(n + A - 1, A) * A
        rng = z3.ULT(n, z3.BitVecVal(2 ** 63, 64))
        claim = z3.And(res == ref, z3.UGE(res, n), z3.ULT(res - n, A), z3.URem(res, A) == 0)
        results.append(discharge('roundup(a=%d) == ((n+a-1)//a)*a, >= n, < n+a, multiple of a' % a, z3.Not(claim), [rng]))
        s = z3.Solver()
        s.add(rng, res != n)
        witnesses.append({'name': 'rounding changes some n (a=%d)' % a, 'z3': check(s)})
    out = verdict(results, witnesses)
    out['source'] = src
    return out


# -----------------------------------------------------------------------------
# I-restart (C11): one inductive step of restart_state.step over the reals, histories of any length

def lemma_restart():
    node, src = find_function('billiard/common.py', 'restart_state.step')
    R, T, maxR, maxT, now = z3.Reals('R T maxR maxT now')
    Tnone = z3.Bool('Tnone')
    opened, cnt = z3.Reals('opened cnt')          # ghost history: when the window was opened, admissions since then / since the last reset
    it = Interp('real', calls={'monotonic': lambda self, args, st: now})
    st0 = {'self.R': R, 'self.T': T, 'self.T$none': Tnone, 'self.maxR': maxR, 'self.maxT': maxT, 'now': now, 'now$none': z3.BoolVal(False)}
    st = it.run(node, st0)
    R1, T1, Tnone1, raised = st['self.R'], st['self.T'], st['self.T$none'], st['$raised']
    # the statement as an oracle on the ghost history
    expired = z3.And(z3.Not(Tnone), now - opened >= maxT)
    expect = z3.And(z3.Not(expired), cnt >= maxR)
    opened1 = z3.If(z3.Or(expired, Tnone), now, opened)
    cnt_a = z3.If(expired, z3.RealVal(0), cnt)
    cnt1 = z3.If(expect, z3.RealVal(0), cnt_a + 1)

    def inv(R_, T_, Tn_, op_, c_):
        return z3.And(R_ == c_, z3.IsInt(c_), c_ >= 0, c_ <= maxR, z3.Implies(z3.Not(Tn_), z3.And(T_ == op_, T_ > 0)), z3.Implies(Tn_, c_ == 0))
    pre = [inv(R, T, Tnone, opened, cnt), maxR >= 1, z3.IsInt(maxR), maxT > 0, now > 0, z3.Implies(z3.Not(Tnone), now >= T)]
    results = [
        discharge('step raises iff the budget of the open window is used up', raised != expect, pre),
        discharge('the invariant (R = admissions since the window opened / last reset, T = opening time) is preserved',
                  z3.Not(inv(R1, T1, Tnone1, opened1, cnt1)), pre),
        discharge('the invariant holds initially (R=0, T=None)', z3.Not(inv(z3.RealVal(0), T, z3.BoolVal(True), opened, z3.RealVal(0))), [maxR >= 1, z3.IsInt(maxR)]),
        discharge('a job acceptance (R := 0) preserves the invariant', z3.Not(inv(z3.RealVal(0), T, Tnone, opened, z3.RealVal(0))), pre),
    ]
    wit = []
    s = z3.Solver()
    s.add(*pre)
    s.add(raised)
    wit.append({'name': 'a raising step exists', 'z3': check(s)})
    s = z3.Solver()
    s.add(*pre)
    s.add(expired)
    wit.append({'name': 'a window-expiry step exists', 'z3': check(s)})
    out = verdict(results, wit)
    out['source'] = src
    return out


def lemma_clock_kernels():
    """L-timedout / L-lost: the two clock comparisons of pool.py over the reals (discharges the integer-time cut of the harnesses)"""
    node, src = find_function('billiard/pool.py', 'TimeoutHandler.handle_timeouts')
    inner = None
    for ch in ast.walk(node):
        if isinstance(ch, ast.FunctionDef) and ch.name == '_timed_out':
            inner = ch
    if inner is None:
        raise Unsupported('_timed_out not found')
    start, timeout, now = z3.Reals('start timeout now')
    sn, tn = z3.Bools('start_none timeout_none')
    it = Interp('real', calls={'monotonic': lambda self, args, st: now})
    st = it.run(inner, {'start': start, 'start$none': sn, 'timeout': timeout, 'timeout$none': tn})
    ret_true = z3.And(st['$returned'], st.get('$ret', z3.BoolVal(False)) if z3.is_bool(st.get('$ret', z3.BoolVal(False))) else st['$ret'] != 0)
    claim = ret_true == z3.And(z3.Not(sn), z3.Not(tn), start != 0, timeout != 0, now >= start + timeout)
    results = [discharge('_timed_out(start, timeout) is true iff both are set and now >= start + timeout', z3.Not(claim), [])]
    s = z3.Solver()
    s.add(ret_true)
    wit = [{'name': 'a timed-out instant exists', 'z3': check(s)}]
    return verdict(results, wit)

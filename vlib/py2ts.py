"""E2 front end: compiles the *current source* of synchronisation methods
(Python AST) into a small instruction list over semaphore / mutex / shared
integer operations.  Anything outside the whitelisted grammar or the primitive
table raises Unsupported (reported as HARNESS-ERROR, never as a pass).

Instructions (tuples):
  visible (scheduling points):
    ('sem_acq', sem, blocking, timed, dst)   dst local gets 1/0 (acquired or not)
    ('sem_rel', sem)
    ('lock_acq', lock)                       blocking mutex acquire (owner := thread)
    ('lock_rel', lock)
    ('sh_read', var, dst)                    one read of a shared int (statement granularity)
    ('sh_write', var, expr)
    ('sh_add', var, k)                       an atomic increment (a library primitive, e.g. threading.Semaphore.release)
  local (fused into the preceding visible step):
    ('set', dst, expr) ('br', expr, label_t, label_f) ('jmp', label) ('assert', expr, text)
    ('ret', expr) ('mark', name) ('end',)
Expressions: ('const', v) ('loc', name) ('not', e) ('and', a, b) ('or', a, b) ('lt'|'le'|'eq'|'ne'|'gt'|'ge', a, b)
             ('add'|'sub', a, b) ('mine', lock) ('sym', name)   (sym: a per-thread BMC variable)
"""
import ast
import os
import textwrap

REPO = os.environ.get('VERIF_REPO', '/repo')


class Unsupported(Exception):
    pass


RAISED = 63          # result value standing for "the method raised"


def load_class_methods(relpath, classname):
    path = os.path.join(REPO, relpath)
    with open(path) as f:
        src = f.read()
    tree = ast.parse(src)
    out = {}

    def visit(body):
        for node in body:
            if isinstance(node, ast.ClassDef) and node.name == classname:
                for it in ast.walk(node):
                    if isinstance(it, ast.FunctionDef) and it.name not in out:
                        out[it.name] = it
            elif isinstance(node, (ast.If, ast.Try)):
                visit(node.body)
                visit(getattr(node, 'orelse', []))
    visit(tree.body)
    if not out:
        raise Unsupported('class %s not found in %s' % (classname, relpath))
    return out, src


def attr_path(n):
    if isinstance(n, ast.Name):
        return n.id
    if isinstance(n, ast.Attribute):
        return attr_path(n.value) + '.' + n.attr
    raise Unsupported('not an attribute path: %s' % ast.dump(n)[:80])


class Asm:
    def __init__(self):
        self.code = []
        self.nlabel = 0
        self.ntmp = 0

    def label(self, hint='L'):
        self.nlabel += 1
        return '%s%d' % (hint, self.nlabel)

    def tmp(self, hint='t'):
        self.ntmp += 1
        return '$%s%d' % (hint, self.ntmp)

    def emit(self, *ins):
        self.code.append(tuple(ins))

    def place(self, label):
        self.code.append(('label', label))

    def link(self):
        pos = {}
        out = []
        for ins in self.code:
            if ins[0] == 'label':
                pos[ins[1]] = len(out)
            else:
                out.append(ins)
        out.append(('end',))

        def fix(ins):
            if ins[0] == 'br':
                return ('br', ins[1], pos[ins[2]], pos[ins[3]])
            if ins[0] == 'jmp':
                return ('jmp', pos[ins[1]])
            return ins
        return [fix(i) for i in out]


class Obj:
    """what an attribute path denotes in the model"""

    def __init__(self, kind, name, **kw):
        self.kind = kind      # sem | lock | cond | shared | const | tsem (threading.Semaphore-like: base class of LaxBoundedSemaphore)
        self.name = name
        self.__dict__.update(kw)


class Compiler:
    """compiles methods of one class; `env` maps attribute paths ('self._lock') to Obj;
    `methods` gives the ASTs of callable methods (own class and inlined collaborators)."""

    def __init__(self, asm, env, methods, prefix='', consts=None):
        self.asm = asm
        self.env = env
        self.methods = methods        # {('self', name) or (path, name): (fn_ast, env_for_callee)}
        self.prefix = prefix
        self.ret_stack = []
        self.consts = consts or {}     # parameters fixed by the scenario: name -> Python constant (None allowed)

    # ---- expressions ---------------------------------------------------------
    def loc(self, name):
        return self.prefix + name

    def expr(self, n):
        """pure expression over locals / constants; calls with effects are handled by value()"""
        if isinstance(n, ast.Constant):
            if n.value is None:
                return ('const', 0)
            if isinstance(n.value, bool):
                return ('const', int(n.value))
            if isinstance(n.value, int):
                return ('const', n.value)
            raise Unsupported('constant %r' % (n.value,))
        if isinstance(n, ast.Name):
            if n.id in self.consts:
                v = self.consts[n.id]
                return ('const', 0 if v is None else int(v))
            return ('loc', self.loc(n.id))
        if isinstance(n, ast.Attribute):
            o = self.lookup(attr_path(n))
            if o.kind == 'const':
                return ('const', o.value)
            raise Unsupported('attribute %s in an expression' % attr_path(n))
        if isinstance(n, ast.UnaryOp) and isinstance(n.op, ast.Not):
            return ('not', self.expr(n.operand))
        if isinstance(n, ast.BoolOp):
            vals = [self.expr(v) for v in n.values]
            op = 'and' if isinstance(n.op, ast.And) else 'or'
            e = vals[0]
            for v in vals[1:]:
                e = (op, e, v)
            return e
        if isinstance(n, ast.Compare) and len(n.ops) == 1:
            ops = {ast.Lt: 'lt', ast.LtE: 'le', ast.Eq: 'eq', ast.NotEq: 'ne', ast.Gt: 'gt', ast.GtE: 'ge'}
            t = type(n.ops[0])
            if t in (ast.Is, ast.IsNot) and isinstance(n.comparators[0], ast.Constant) and n.comparators[0].value is None:
                # `x is None` for a parameter the scenario fixed, or an attribute the scenario declares (non-)None
                if isinstance(n.left, ast.Name) and n.left.id in self.consts:
                    isnone = self.consts[n.left.id] is None
                    return ('const', int(isnone if t is ast.Is else not isnone))
                if isinstance(n.left, ast.Attribute):
                    try:
                        o = self.lookup(attr_path(n.left))
                    except Unsupported:
                        o = None
                    if o is not None and o.kind in ('lock', 'sem', 'cond', 'pycond'):
                        return ('const', int(t is ast.IsNot))       # the object exists in this scenario (not None)
                e = ('eq', self.expr(n.left), ('const', 0))
                return e if t is ast.Is else ('not', e)
            if t not in ops:
                raise Unsupported('comparison %s' % t.__name__)
            return (ops[t], self.expr(n.left), self.expr(n.comparators[0]))
        if isinstance(n, ast.BinOp) and isinstance(n.op, (ast.Add, ast.Sub)):
            return ('add' if isinstance(n.op, ast.Add) else 'sub', self.expr(n.left), self.expr(n.right))
        if isinstance(n, ast.Call):
            path = attr_path(n.func)
            if path.endswith('._semlock._is_mine'):
                o = self.lookup(path[:-len('._semlock._is_mine')])
                return ('mine', o.name)
            if path.endswith('._semlock._count'):
                return ('const', 1)     # bound: locks are held with recursion depth 1 in every scenario
            if path.endswith('._semlock._is_zero'):
                o = self.lookup(path[:-len('._semlock._is_zero')])
                return ('semzero', o.name)
            if path in ('ForkingPickler.loads', 'ForkingPickler.dumps'):
                return ('const', 0)     # (un)pickling is outside the model (C12/C13 own serialisation)
        raise Unsupported('expression %s' % ast.dump(n)[:100])

    def lookup(self, path):
        if path not in self.env:
            raise Unsupported('unknown object %s' % path)
        return self.env[path]

    def value(self, n, dst=None):
        """evaluate n, emitting code for calls with effects; returns an expression"""
        if isinstance(n, ast.Call):
            path = attr_path(n.func)
            if path in self.env and self.env[path].kind == 'tsem_base_release':
                o = self.env[path]
                # threading.Semaphore.release(self): `with self._cond: self._value += n; self._cond.notify(n)`
                self.asm.emit('lock_acq', o.lock)
                self.asm.emit('sh_add', o.var, 1)
                self.asm.emit('lock_rel', o.lock)
                return ('const', 0)
            if '.' in path and tuple(path.rsplit('.', 1)) in self.methods:
                return self.inline(tuple(path.rsplit('.', 1)), n, dst)
            if path.endswith('.acquire'):
                o = self.lookup(path[:-len('.acquire')])
                args = n.args
                blocking = True
                timed = False
                if args:
                    a0 = args[0]
                    if isinstance(a0, ast.Constant):
                        blocking = bool(a0.value)
                    elif isinstance(a0, ast.Name) and a0.id in self.consts:
                        blocking = bool(self.consts[a0.id])
                    else:
                        raise Unsupported('acquire(block) with a non-constant block argument')
                if len(args) > 1:
                    t = args[1]
                    if isinstance(t, ast.Constant) and t.value is None:
                        timed = False
                    elif isinstance(t, ast.Name) and t.id in self.consts:
                        timed = self.consts[t.id] is not None
                    elif isinstance(t, ast.Name):
                        timed = ('loc', self.loc(t.id))     # decided by the scenario: the local is 0 (None) or 1 (a timeout)
                    else:
                        raise Unsupported('acquire timeout expression')
                d = dst or self.asm.tmp('acq')
                if o.kind == 'sem':
                    if isinstance(timed, tuple):
                        # two variants selected by the local
                        lt, lf, le = self.asm.label('timed'), self.asm.label('untimed'), self.asm.label('acqend')
                        self.asm.emit('br', timed, lt, lf)
                        self.asm.place(lt)
                        self.asm.emit('sem_acq', o.name, blocking, True, d)
                        self.asm.emit('jmp', le)
                        self.asm.place(lf)
                        self.asm.emit('sem_acq', o.name, blocking, False, d)
                        self.asm.place(le)
                    else:
                        self.asm.emit('sem_acq', o.name, blocking, timed, d)
                    return ('loc', d)
                if o.kind in ('lock', 'cond'):
                    if not blocking or timed:
                        raise Unsupported('non-blocking lock acquire')
                    self.asm.emit('lock_acq', o.lock if o.kind == 'cond' else o.name)
                    return ('const', 1)
                raise Unsupported('acquire on %s' % o.kind)
            if path.endswith('.release'):
                o = self.lookup(path[:-len('.release')])
                if o.kind == 'sem':
                    self.asm.emit('sem_rel', o.name)
                elif o.kind in ('lock', 'cond'):
                    self.asm.emit('lock_rel', o.lock if o.kind == 'cond' else o.name)
                elif o.kind == 'tsem_base':
                    # threading.Semaphore.release(self): `with self._cond: self._value += n; notify` - atomic w.r.t. the lock
                    self.asm.emit('sh_add', o.var, 1)
                else:
                    raise Unsupported('release on %s' % o.kind)
                return ('const', 0)
            if path.endswith('.append'):
                o = self.lookup(path[:-len('.append')])
                if o.kind == 'buffer':
                    self.asm.emit('sem_rel', o.name)       # the buffer as a counting semaphore: the feeder blocks while it is empty
                    return ('const', 0)
            if path.endswith('.clear'):
                o = self.lookup(path[:-len('.clear')])
                if o.kind == 'buffer':
                    self.asm.emit('sem_clear', o.name)
                    return ('const', 0)
            if path in ('ForkingPickler.loads', 'ForkingPickler.dumps'):
                for a0 in n.args:
                    self.value(a0)          # the argument may be a call with effects (get_payload()); (un)pickling itself is outside
                return ('const', 0)
            if path in self.env and self.env[path].kind == 'pipe_send_framed':
                # connection.send_bytes as two writes (header, body): another writer in between corrupts the framing
                o = self.env[path]
                d = self.asm.tmp('hdr')
                self.asm.emit('sem_acq', o.frame, False, False, d)
                self.asm.emit('assert', ('loc', d), 'no other writer is in the middle of a message')
                self.asm.emit('sem_rel', o.frame)
                self.asm.emit('sem_rel', o.name)
                return ('const', 0)
            if path in self.env and self.env[path].kind == 'pipe_recv_framed':
                # connection.recv_bytes as two reads (header, body); blocks until a whole message is there
                o = self.env[path]
                d = self.asm.tmp('hdr')
                d2 = dst or self.asm.tmp('msg')
                self.asm.emit('sem_acq', o.frame, False, False, d)
                self.asm.emit('assert', ('loc', d), 'no other reader is in the middle of a message')
                self.asm.emit('sem_acq', o.name, True, False, d2)
                self.asm.emit('sem_rel', o.frame)
                return ('loc', d2)
            if path in self.env and self.env[path].kind == 'pipe_recv':
                d = dst or self.asm.tmp('msg')
                self.asm.emit('sem_acq', self.env[path].name, True, False, d)      # blocks until a whole message is in the pipe
                return ('loc', d)
            # method call on a collaborator / self: inline
            base, meth = path.rsplit('.', 1)
            key = (base, meth)
            if key in self.methods:
                return self.inline(key, n, dst)
            if meth in ('notify', 'notify_all') and base in self.env and self.env[base].kind == 'pycond':
                return ('const', 0)       # threading.Condition.notify*: waking sleepers is outside the model (no waiter blocks in it)
            return self.expr(n)
        return self.expr(n)

    def inline(self, key, call, dst):
        fn, env2, prefix2 = self.methods[key]
        sub = Compiler(self.asm, env2, self.methods, prefix=self.prefix + prefix2 + self.asm.tmp('f')[1:] + '.')
        params = [a.arg for a in fn.args.args if a.arg != 'self']
        defaults = fn.args.defaults
        cargs = list(call.args)
        if cargs and isinstance(cargs[0], ast.Name) and cargs[0].id == 'self' and fn.args.args and fn.args.args[0].arg == 'self':
            cargs = cargs[1:]                 # Class.method(self, ...) called explicitly
        vals = {}
        for i, p in enumerate(params):
            if i < len(cargs):
                a = cargs[i]
                if isinstance(a, ast.Name) and a.id in self.consts:
                    sub.consts[p] = self.consts[a.id]          # a scenario constant handed on
                    continue
                if isinstance(a, ast.Constant) and (a.value is None or isinstance(a.value, (bool, int))):
                    sub.consts[p] = a.value
                    continue
                vals[p] = self.value(a)
            else:
                di = i - (len(params) - len(defaults))
                if di < 0:
                    raise Unsupported('missing argument %s' % p)
                d = defaults[di]
                if isinstance(d, ast.Constant) and (d.value is None or isinstance(d.value, (bool, int))):
                    sub.consts[p] = d.value
                else:
                    vals[p] = self.expr(d)
        for k in call.keywords:
            vals[k.arg] = self.value(k.value)
        for p, v in vals.items():
            self.asm.emit('set', sub.loc(p), v)
        rv = dst or self.asm.tmp('rv')
        end = self.asm.label('ret')
        sub.ret_stack.append((rv, end))
        sub.finally_stack = ()
        self.asm.emit('set', rv, ('const', 0))
        sub.block(fn.body)
        self.asm.place(end)
        if any(isinstance(n, ast.Raise) for n in ast.walk(fn)):
            # an exception raised by the callee leaves the caller too (through the caller's own finally / with blocks)
            lp, lc = self.asm.label('propagate'), self.asm.label('cont')
            self.asm.emit('br', ('eq', ('loc', rv), ('const', RAISED)), lp, lc)
            self.asm.place(lp)
            self.do_return(('const', RAISED))
            self.asm.place(lc)
        return ('loc', rv)

    # ---- statements ----------------------------------------------------------
    def block(self, stmts):
        for s in stmts:
            self.stmt(s)

    def do_return(self, valexpr):
        if self.finally_stack:
            # leaving through enclosing finally blocks
            rv, _ = self.ret_stack[-1] if self.ret_stack else (None, None)
            tgt = self.finally_stack[-1]
            self.asm.emit('set', tgt['rv'], valexpr)
            self.asm.emit('set', tgt['returning'], ('const', 1))
            self.asm.emit('jmp', tgt['label'])
            return
        if self.ret_stack:
            rv, end = self.ret_stack[-1]
            self.asm.emit('set', rv, valexpr)
            self.asm.emit('jmp', end)
        else:
            self.asm.emit('ret', valexpr)

    finally_stack = ()

    def stmt(self, s):
        a = self.asm
        if isinstance(s, ast.Expr):
            if isinstance(s.value, ast.Constant):
                return
            self.value(s.value)
            return
        if isinstance(s, ast.Pass):
            return
        if isinstance(s, ast.Assert):
            e = self.cond(s.test)
            a.emit('assert', e, ast.unparse(s.test)[:60])
            return
        if isinstance(s, ast.Assign) and len(s.targets) == 1:
            t = s.targets[0]
            if isinstance(t, ast.Name):
                if isinstance(s.value, ast.Attribute):
                    try:
                        src = attr_path(s.value)
                    except Unsupported:
                        src = None
                    if src in self.env and self.env[src].kind in ('pycond', 'cond', 'lock', 'sem'):
                        self.env = dict(self.env)
                        self.env[t.id] = self.env[src]        # a local alias of a synchronisation object (cond = self._cond)
                        return
                v = self.value(s.value, dst=None)
                a.emit('set', self.loc(t.id), v)
                return
            if isinstance(t, ast.Attribute):
                o = self.lookup(attr_path(t))
                if o.kind == 'shared':
                    v = self.shared_expr(s.value)
                    a.emit('sh_write', o.name, v)
                    return
            raise Unsupported('assignment target %s' % ast.dump(t)[:60])
        if isinstance(s, ast.AugAssign):
            if isinstance(s.target, ast.Name) and isinstance(s.op, (ast.Add, ast.Sub)):
                op = 'add' if isinstance(s.op, ast.Add) else 'sub'
                a.emit('set', self.loc(s.target.id), (op, ('loc', self.loc(s.target.id)), self.expr(s.value)))
                return
            if isinstance(s.target, ast.Attribute):
                o = self.lookup(attr_path(s.target))
                if o.kind == 'shared' and isinstance(s.op, (ast.Add, ast.Sub)):
                    # read-modify-write of a shared attribute: a read and a write, each one scheduling point
                    t = a.tmp('rd')
                    a.emit('sh_read', o.name, t)
                    op = 'add' if isinstance(s.op, ast.Add) else 'sub'
                    a.emit('sh_write', o.name, (op, ('loc', t), self.expr(s.value)))
                    return
            raise Unsupported('augmented assignment')
        if isinstance(s, ast.Return):
            v = self.value(s.value) if s.value is not None else ('const', 0)
            self.do_return(v)
            return
        if isinstance(s, ast.Raise):
            self.do_return(('const', RAISED))
            return
        if isinstance(s, ast.If):
            c = self.cond(s.test)
            if c == ('const', 0):
                self.block(s.orelse)        # statically dead branch (scenario constant): not compiled
                return
            if c[0] == 'const' and c[1]:
                self.block(s.body)
                return
            lt, lf, le = a.label('then'), a.label('else'), a.label('fi')
            a.emit('br', c, lt, lf)
            a.place(lt)
            self.block(s.body)
            a.emit('jmp', le)
            a.place(lf)
            self.block(s.orelse)
            a.place(le)
            return
        if isinstance(s, ast.While):
            if s.orelse:
                raise Unsupported('while/else')
            top, body, out = a.label('while'), a.label('do'), a.label('od')
            a.place(top)
            if isinstance(s.test, ast.Constant) and s.test.value:
                a.emit('jmp', body)
            else:
                c = self.cond(s.test)
                a.emit('br', c, body, out)
            a.place(body)
            self.loop_stack = getattr(self, 'loop_stack', []) + [out]
            self.block(s.body)
            self.loop_stack = self.loop_stack[:-1]
            a.emit('jmp', top)
            a.place(out)
            return
        if isinstance(s, ast.Break):
            a.emit('jmp', self.loop_stack[-1])
            return
        if isinstance(s, ast.For):
            if not (isinstance(s.iter, ast.Call) and isinstance(s.iter.func, ast.Name) and s.iter.func.id == 'range' and len(s.iter.args) == 1):
                raise Unsupported('for over something else than range(n)')
            n = self.expr(s.iter.args[0])
            i = a.tmp('i')
            top, body, out = a.label('for'), a.label('do'), a.label('od')
            a.emit('set', i, ('const', 0))
            a.place(top)
            a.emit('br', ('lt', ('loc', i), n), body, out)
            a.place(body)
            if isinstance(s.target, ast.Name):
                a.emit('set', self.loc(s.target.id), ('loc', i))
            self.block(s.body)
            a.emit('set', i, ('add', ('loc', i), ('const', 1)))
            a.emit('jmp', top)
            a.place(out)
            return
        if isinstance(s, ast.Try):
            if s.handlers or s.orelse or not s.finalbody:
                raise Unsupported('try with handlers')
            self.with_finally(lambda: self.block(s.body), lambda: self.block(s.finalbody))
            return
        if isinstance(s, ast.With) and len(s.items) == 1 and s.items[0].optional_vars is None:
            o = self.lookup(attr_path(s.items[0].context_expr))
            if o.kind == 'cond':
                lk = o.lock
            elif o.kind == 'lock':
                lk = o.name
            elif o.kind == 'pycond':
                lk = o.lock
            else:
                raise Unsupported('with on %s' % o.kind)
            a.emit('lock_acq', lk)
            self.with_finally(lambda: self.block(s.body), lambda: a.emit('lock_rel', lk))
            return
        raise Unsupported('statement %s' % type(s).__name__)

    def with_finally(self, body, final):
        a = self.asm
        fin = {'label': a.label('finally'), 'rv': a.tmp('frv'), 'returning': a.tmp('fret')}
        a.emit('set', fin['returning'], ('const', 0))
        a.emit('set', fin['rv'], ('const', 0))
        saved = self.finally_stack
        self.finally_stack = tuple(saved) + (fin,)
        body()
        self.finally_stack = saved
        a.place(fin['label'])
        final()
        # continue the pending return, if any
        lt, lf = a.label('doret'), a.label('noret')
        a.emit('br', ('loc', fin['returning']), lt, lf)
        a.place(lt)
        self.do_return(('loc', fin['rv']))
        a.place(lf)

    def cond(self, n):
        """condition that may contain calls with effects (acquire(False) as a test)"""
        return fold(self.cond0(n))

    def cond0(self, n):
        if isinstance(n, ast.UnaryOp) and isinstance(n.op, ast.Not):
            return ('not', self.cond0(n.operand))
        if isinstance(n, ast.BoolOp):
            vals = [self.cond0(v) for v in n.values]
            op = 'and' if isinstance(n.op, ast.And) else 'or'
            e = vals[0]
            for v in vals[1:]:
                e = (op, e, v)
            return e
        if isinstance(n, ast.Call):
            return self.value(n)
        if isinstance(n, ast.Compare) and len(n.ops) == 1:
            # comparisons over shared attributes: each attribute read is one scheduling point
            ops = {ast.Lt: 'lt', ast.LtE: 'le', ast.Eq: 'eq', ast.NotEq: 'ne', ast.Gt: 'gt', ast.GtE: 'ge'}
            t = type(n.ops[0])
            if t in ops and (self.is_shared(n.left) or self.is_shared(n.comparators[0])):
                return (ops[t], self.shared_expr(n.left), self.shared_expr(n.comparators[0]))
            if t in (ast.Is, ast.IsNot) and self.is_shared(n.left) and isinstance(n.comparators[0], ast.Constant) \
                    and n.comparators[0].value is None:
                e = ('eq', self.shared_expr(n.left), ('const', 0))
                return e if t is ast.Is else ('not', e)
        return self.expr(n)

    def is_shared(self, n):
        if isinstance(n, ast.Attribute):
            try:
                return self.lookup(attr_path(n)).kind in ('shared', 'sharedconst')
            except Unsupported:
                return False
        return False

    def shared_expr(self, n):
        if self.is_shared(n):
            o = self.lookup(attr_path(n))
            t = self.asm.tmp('rd')
            self.asm.emit('sh_read', o.name, t)
            return ('loc', t)
        if isinstance(n, ast.BinOp) and isinstance(n.op, (ast.Add, ast.Sub)):
            return ('add' if isinstance(n.op, ast.Add) else 'sub', self.shared_expr(n.left), self.shared_expr(n.right))
        return self.expr(n)


def fold(e):
    """constant folding of scenario constants"""
    k = e[0]
    if k == 'not':
        a = fold(e[1])
        if a[0] == 'const':
            return ('const', int(not a[1]))
        return ('not', a)
    if k in ('and', 'or'):
        a, b = fold(e[1]), fold(e[2])
        if a[0] == 'const':
            if k == 'and':
                return b if a[1] else ('const', 0)
            return ('const', 1) if a[1] else b
        if b[0] == 'const':
            if k == 'and':
                return a if b[1] else ('const', 0)
            return ('const', 1) if b[1] else a
        return (k, a, b)
    if k in ('eq', 'ne') and e[1][0] == 'const' and e[2][0] == 'const':
        return ('const', int((e[1][1] == e[2][1]) == (k == 'eq')))
    return e


def compile_method(fn_ast, env, methods, asm=None, args=None, prefix=''):
    """compile one call of a method; args: {param: expr}.  Returns the local holding the result."""
    asm = asm or Asm()
    c = Compiler(asm, env, methods, prefix=prefix)
    params = [a.arg for a in fn_ast.args.args if a.arg != 'self']
    defaults = fn_ast.args.defaults
    args = args or {}
    for i, p in enumerate(params):
        if p in args:
            v = args[p]
        else:
            di = i - (len(params) - len(defaults))
            if di < 0:
                raise Unsupported('missing argument %s' % p)
            v = c.expr(defaults[di])
        asm.emit('set', c.loc(p), v)
    rv = asm.tmp('result')
    end = asm.label('callend')
    c.ret_stack.append((rv, end))
    asm.emit('set', rv, ('const', 0))
    c.block(fn_ast.body)
    asm.place(end)
    return rv

"""One CrossHair analysis (or one native replay) in its own process.

  python -m vlib.chworker analyze <module> <function> <timeout_s> <out.json>
  python -m vlib.chworker replay  <module> <function> <args.json> <out.json>

The harness module is imported from /verif/harness; the code under analysis is
imported from $VERIF_REPO (default /repo) on every run, nothing is cached.
"""
import ast
import collections
import importlib
import json
import os
import sys
import time
import traceback

REPO = os.environ.get('VERIF_REPO', '/repo')
sys.path.insert(0, REPO)
HERE = os.path.dirname(os.path.dirname(os.path.abspath(__file__)))
if HERE not in sys.path:
    sys.path.insert(1, HERE)


def _load(modname, fname):
    mod = importlib.import_module(modname)
    return mod, getattr(mod, fname)


def parse_invocation(text):
    """'false when calling h(1, b=[2])' -> (args, kwargs) through literal_eval."""
    marker = 'when calling '
    if marker not in text:
        return None
    inv = text.split(marker, 1)[1]
    # keep the balanced call expression only: CrossHair may append
    # ' with crosshair.patch_to_return(...)' and ' (which returns ...)'
    depth = 0
    end = None
    instr = None
    for k, ch in enumerate(inv):
        if instr:
            if ch == instr and inv[k - 1] != chr(92):
                instr = None
            continue
        if ch in '"' + "'":
            instr = ch
        elif ch in '([{':
            depth += 1
        elif ch in ')]}':
            depth -= 1
            if depth == 0:
                end = k + 1
                break
    if end is None:
        return None
    inv = inv[:end]
    try:
        node = ast.parse(inv.strip(), mode='eval').body
        if not isinstance(node, ast.Call):
            return None
        args = [ast.literal_eval(a) for a in node.args]
        kwargs = {k.arg: ast.literal_eval(k.value) for k in node.keywords}
        return args, kwargs
    except Exception:
        return None


def jsonable(x):
    if isinstance(x, bytes):
        return {'__bytes__': list(x)}
    if isinstance(x, (list, tuple)):
        return [jsonable(y) for y in x]
    if isinstance(x, dict):
        return {str(k): jsonable(v) for k, v in x.items()}
    if isinstance(x, (int, float, str, bool)) or x is None:
        return x
    return repr(x)


def unjson(x):
    if isinstance(x, dict) and '__bytes__' in x:
        return bytes(x['__bytes__'])
    if isinstance(x, list):
        return [unjson(y) for y in x]
    if isinstance(x, dict):
        return {k: unjson(v) for k, v in x.items()}
    return x


def analyze(modname, fname, timeout, out):
    t0 = time.time()
    res = {'module': modname, 'function': fname, 'timeout_s': timeout,
           'repo': REPO, 'status': 'error', 'messages': []}
    try:
        import z3
        qstat = {'n': 0, 't': 0.0}
        orig_check = z3.Solver.check

        def counting_check(self, *a, **k):
            s = time.perf_counter()
            try:
                return orig_check(self, *a, **k)
            finally:
                qstat['n'] += 1
                qstat['t'] += time.perf_counter() - s
        z3.Solver.check = counting_check

        import crosshair.core_and_libs  # noqa: registers plugins
        from crosshair.core import analyze_function, run_checkables
        from crosshair.options import AnalysisOptionSet, AnalysisKind
        from crosshair.statespace import MessageType

        mod, fn = _load(modname, fname)
        stats = collections.Counter()
        opts = AnalysisOptionSet(
            analysis_kind=[AnalysisKind.PEP316],
            per_condition_timeout=float(timeout),
            report_all=True,
            stats=stats,
        )
        checkables = analyze_function(fn, opts)
        if not checkables:
            res['status'] = 'error'
            res['messages'].append('no checkable conditions found')
        else:
            worst = None
            order = ['confirmed', 'cannot_confirm', 'pre_unsat', 'post_err',
                     'exec_err', 'post_fail', 'syntax_err', 'import_err']
            for m in run_checkables(checkables):
                st = m.state.value
                res['messages'].append({'state': st, 'message': m.message,
                                        'line': m.line})
                if worst is None or order.index(st) > order.index(worst[0]):
                    worst = (st, m)
            if worst is None:
                res['status'] = 'unknown'
            else:
                st, m = worst
                res['status'] = {
                    'confirmed': 'confirmed', 'cannot_confirm': 'unknown',
                    'pre_unsat': 'pre_unsat', 'post_fail': 'refuted',
                    'exec_err': 'refuted', 'post_err': 'refuted',
                }.get(st, 'error')
                if res['status'] == 'refuted':
                    inv = parse_invocation(m.message)
                    res['refuted_by'] = st
                    if inv is not None:
                        res['cex'] = {'args': jsonable(inv[0]),
                                      'kwargs': jsonable(inv[1])}
                    res['cex_text'] = m.message
        res['num_paths'] = stats.get('num_paths', 0)
        res['exhausted'] = stats.get('exhaustion', 0) > 0
        res['stats'] = dict(stats)
        res['solver_queries'] = qstat['n']
        res['solver_time_s'] = round(qstat['t'], 3)
    except BaseException as exc:  # noqa
        res['status'] = 'error'
        res['messages'].append(traceback.format_exc())
    res['wall_s'] = round(time.time() - t0, 3)
    with open(out, 'w') as f:
        json.dump(res, f)
    # CrossHair sometimes leaves finalizers that die at interpreter exit.
    sys.stdout.flush()
    os._exit(0)


def replay(modname, fname, argsfile, out):
    t0 = time.time()
    res = {'module': modname, 'function': fname, 'repo': REPO}
    try:
        with open(argsfile) as f:
            spec = json.load(f)
        args = unjson(spec.get('args', []))
        kwargs = unjson(spec.get('kwargs', {}))
        mod, fn = _load(modname, fname)
        import harness.hbase as hb
        hb.begin_replay()
        try:
            ret = fn(*args, **kwargs)
            res['returned'] = bool(ret)
            res['exception'] = None
        except Exception as exc:
            res['returned'] = None
            res['exception'] = '%s: %s' % (type(exc).__name__, exc)
            res['traceback'] = traceback.format_exc()
        res['tag'] = hb.REPLAY.get('tag')
        res['suppressed_tags'] = list(hb.REPLAY.get('suppressed', []))
        res['trace'] = [str(x) for x in hb.REPLAY.get('trace', [])][-200:]
        res['violates'] = (res['returned'] is False) or (res['exception'] is not None)
    except BaseException:
        res['violates'] = None
        res['error'] = traceback.format_exc()
    res['wall_s'] = round(time.time() - t0, 3)
    with open(out, 'w') as f:
        json.dump(res, f)
    sys.stdout.flush()
    os._exit(0)


if __name__ == '__main__':
    mode = sys.argv[1]
    if mode == 'analyze':
        analyze(sys.argv[2], sys.argv[3], float(sys.argv[4]), sys.argv[5])
    elif mode == 'replay':
        replay(sys.argv[2], sys.argv[3], sys.argv[4], sys.argv[5])
    else:
        sys.exit(2)

"""Obligations per property (data only; nothing from /repo is imported here)."""

SPECS = {}


def ch(name, module, function, what, bounds=None, timeout=(120, 1200), expect='confirmed', twin_of=None, **kw):
    d = dict(name=name, kind='ch', module=module, function=function, what=what,
             bounds=bounds, timeout=timeout, expect=expect, twin_of=twin_of)
    d.update(kw)
    return d


def twin(of, module, function, what, timeout=(120, 600), **kw):
    return ch(of + '/twin', module, function, what, timeout=timeout, expect='refuted', twin_of=of, **kw)


def smt(name, module, function, what, bounds=None, timeout=(120, 1200), kind='smt', **kw):
    d = dict(name=name, kind=kind, module=module, function=function, what=what,
             bounds=bounds, timeout=timeout, expect='confirmed', twin_of=None)
    d.update(kw)
    return d


def parts(ob, n, tiers=('quick', 'thorough')):
    """split one obligation into n parts (VERIF_PART/VERIF_NPART in the worker's environment)"""
    out = []
    for k in range(n):
        d = dict(ob)
        d['name'] = '%s[%d/%d]' % (ob['name'], k, n)
        d['env'] = dict(ob.get('env') or {}, VERIF_PART=str(k), VERIF_NPART=str(n))
        if ob.get('twin_of'):
            d['twin_of'] = '%s[%d/%d]' % (ob['twin_of'], k, n)
        out.append(d)
    return out


TRUST = ['CrossHair 0.0.110 (symbolic execution of CPython bytecode semantics)', 'z3 5.1.0 (python wheel)',
         'CPython 3.12.1', 'the stub set listed under assumptions']

SPECS['C11'] = dict(
    level='other',
    explanation='Solver-based: CrossHair executes the real billiard.common.restart_state.step symbolically over a bounded '
                'sequence of calls with symbolic instants, budget, window and ack positions and compares every step with a '
                'ghost-history oracle; z3 proves one inductive step of the translated transition for histories of any length.',
    functions=['billiard.common.restart_state.step', 'billiard.common.restart_state.__init__'],
    bounds={'quick': 'steps=5, 1<=maxR<=3, maxT>=1 unbounded int, instants unbounded non-decreasing ints',
            'thorough': 'steps=7, 1<=maxR<=4'},
    outside=['floating-point rounding of instants', 'monotonic()==0 (T falsy)'],
    assumptions=['time is an integer tick count inside CrossHair; the real-valued kernel is re-proved by the E3 lemma',
                 'monotonic() > 0 (Linux CLOCK_MONOTONIC is time since boot)'],
    trusted_base=TRUST,
    obligations=[
        ch('restart-bounded', 'harness.c11', 'h_restart', 'real step() vs ghost-history oracle, symbolic times/budget/window/acks',
           timeout=(150, 1200), quick_only=True),
        twin('restart-bounded', 'harness.c11', 'h_restart_twin', 'a run in which RestartFreqExceeded is raised exists', quick_only=True),
    ] + parts(ch('restart-bounded-t', 'harness.c11', 'h_restart', 'same, 6 steps, split on the first three ack flags',
                 timeout=(150, 1500), thorough_only=True), 8)
      + parts(twin('restart-bounded-t', 'harness.c11', 'h_restart_twin', 'a raising run exists in this part', thorough_only=True), 8),
)

NOT_APPLICABLE = {
    'C15': 'every clause but isolation lives in ctypes/mmap/the kernel: a Python-level symbolic executor realises every value at the '
           'first ctypes call and no C/kernel engine is installed; the isolation clause is discharged under C14 (DESIGN.md section 9)',
}

ENGINES = [
    {'name': 'E1', 'path': 'vlib/chworker.py + harness/', 'kind_free_text': 'CrossHair symbolic execution of the real functions in a stubbed world',
     'serves_properties': []},
    {'name': 'E2', 'path': 'vlib/py2ts.py + vlib/bmc.py', 'kind_free_text': 'Python AST -> transition system -> z3 bit-vector BMC of interleavings',
     'serves_properties': []},
    {'name': 'E3', 'path': 'vlib/smt.py', 'kind_free_text': 'AST -> SMT lemmas / inductive steps, z3 cross-checked with cvc5',
     'serves_properties': []},
]

POOL_FUNCS = ['billiard.pool.Pool.__init__', 'Pool._create_worker_process', 'Pool.apply_async', 'Pool._map_async', 'Pool.imap',
              'Pool.imap_unordered', 'Pool._get_tasks', 'TaskHandler.body', 'ResultHandler._make_methods(on_ack,on_ready,on_state_change)',
              'ResultHandler._process_result', 'ResultHandler.handle_event', 'Pool._maintain_pool', 'Pool._join_exited_workers',
              'Pool._repopulate_pool', 'Pool._avail_index', 'Pool.on_job_process_lost', 'Pool.mark_as_worker_lost',
              'ApplyResult.*', 'MapResult.*', 'IMapIterator.*', 'IMapUnorderedIterator.*', 'billiard.einfo.ExceptionInfo']
POOL_ASSUME = [
    'environment stubs (harness/world.py): fake Process/Popen/SimpleQueue/Value/Event context, integer clock bound to pool.monotonic, '
    'pool._kill/os.killpg/os.getpgid/time.sleep bound to the world',
    'pool.human_status / error / debug / warning replaced by recorders (str.format on a symbolic int realises it)',
    'worker stubs emit exactly the message grammar established for the real Worker.workloop under C03: per task ACK then one READY; '
    'a worker dies only mid-task or between jobs',
    'pipes deliver whole messages in FIFO order (C13 owns framing)',
]

SPECS['C04'] = dict(
    level='other',
    explanation='Solver-based: CrossHair executes the real pool supervision and result-dispatch code inside a stubbed process world; '
                'exit status, clock advances, lost-worker timeout and the order of ticks / result handling / worker progress are '
                'solver variables; a monitor written from the statement checks who is reported lost, when, and that the pool is restored.',
    functions=POOL_FUNCS,
    bounds={'quick': 'pool of 2; 4 events after the death, each preceded by a clock advance in [0,205]; status in [-64,255]; '
                     'lost_worker_timeout in [1,100]; kinds apply/map/imap/imap_unordered',
            'thorough': 'same with 5 events'},
    outside=['more than two workers / more than two concurrently running jobs', 'real processes and pipes', 'float clocks'],
    assumptions=POOL_ASSUME + ['A-drain: a message already in the result pipe is read before lost_worker_timeout elapses'],
    trusted_base=TRUST,
    obligations=(
        parts(ch('mid-task-death', 'harness.c04', 'h_mid', 'worker dies mid-task with any status: its job and only its job is lost, '
                 'not before the timeout, reported on every handle kind, pool restored', timeout=(240, 1500)), 8)
        + parts(twin('mid-task-death', 'harness.c04', 'h_mid_twin', 'a run in which the loss is reported exists'), 8)
        + parts(ch('exit-after-work', 'harness.c04', 'h_after', 'worker exits between jobs with any status (result handled before or '
                   'after): nothing is ever reported lost and the job completes with its real result', timeout=(240, 1500)), 4)
        + parts(twin('exit-after-work', 'harness.c04', 'h_after_twin', 'a run in which the worker exits exists'), 4)
    ),
)

WORKER_FUNCS = ['billiard.pool.Worker.workloop (statement-instrumented from current source)', 'Worker.__call__', 'Worker._do_exit',
                'Worker._make_child_methods', 'Worker._make_protected_receive', 'Worker._make_recv_method',
                'Worker._ensure_messages_consumed', 'billiard.common._shutdown_cleanup', 'billiard.pool.soft_timeout_sighandler',
                'billiard.einfo.ExceptionInfo', 'billiard.pool.MaybeEncodingError']
WORKER_ASSUME = [
    'worker-side stubs (harness/workerh.py): request/result/syn queues as scripted FIFOs, os._exit raising a private exception, '
    'time.sleep and mem_rss recorders, after_fork (closing descriptors, installing real signal handlers) skipped',
    'a signal handler runs between two statements of workloop or inside a stub call (symbolic crash point); '
    'the instrumentation is validated against the original function on concrete scripts every run',
    'traceback text formatting replaced by a constant (C12 owns it)',
]

SPECS['C03'] = dict(
    level='other',
    explanation='Solver-based: CrossHair executes the real Worker.workloop over scripted queues with symbolic task outcomes, quota, '
                'SYN answers (ACK/NACK after silence) and consumed-counter, and checks the message grammar from the statement; the '
                'parent side (accept callback before result callback, owner recorded, NACK for a cancelled job) runs the real '
                'ResultHandler/ApplyResult code.',
    functions=WORKER_FUNCS + ['billiard.pool.ApplyResult._ack', 'ResultHandler on_ack/on_ready'],
    bounds={'quick': '3 tasks per script, outcomes {return, raise Exception, raise BaseException, unserialisable}, quota 0..3, '
                     'NACK/ACK per task after 0..2 silent polls', 'thorough': '4 tasks'},
    outside=['real pipes and pickling of arbitrary results', 'more than 4 tasks per worker life'],
    assumptions=WORKER_ASSUME,
    trusted_base=TRUST,
    obligations=[
        smt('instrumentation-valid', 'harness.c03', 'v_instrumentation', 'instrumented workloop == original on concrete scripts', kind='validate'),
    ] + parts(ch('worker-protocol', 'harness.c03', 'h_protocol', 'ACK(pid,time) before run, exactly one READY per job, quota, exit status, '
                 'consumption guard', timeout=(300, 1500)), 9)
      + parts(twin('worker-protocol', 'harness.c03', 'h_protocol_twin', 'a run ending with the recycle status exists'), 9)
      + [ch('worker-unpicklable', 'harness.c03', 'h_unpicklable', 'unserialisable result at any set of positions: exactly one '
            'READY(False, MaybeEncodingError) for that job, loop continues', timeout=(200, 900), nontrivial_witness=True)]
      + parts(ch('worker-synack', 'harness.c03', 'h_synack', 'NACKed job never executed and not counted; ACKed job runs after the answer',
                 timeout=(300, 1500)), 4)
      + parts(twin('worker-synack', 'harness.c03', 'h_synack_twin', 'a run with a refused job exists'), 4),
)

TIMEOUT_FUNCS = ['billiard.pool.TimeoutHandler.handle_event', 'TimeoutHandler.handle_timeouts', 'TimeoutHandler.on_hard_timeout',
                 'TimeoutHandler.on_soft_timeout', 'TimeoutHandler._trywaitkill', 'TimeoutHandler._process_by_pid',
                 'ApplyResult.handle_timeout', 'Pool.apply_async (limit precedence)']

_term = (parts(ch('worker-termination', 'harness.c03', 'h_termination', 'termination signal (any hooked number) delivered at any statement '
                  'boundary of the work loop or inside any stub call: no task body starts afterwards, exit callback once, DEATH notice, '
                  'exit with the handler status', timeout=(300, 1500)), 8)
         + parts(twin('worker-termination', 'harness.c03', 'h_termination_twin', 'a run in which the signal is delivered exists'), 8))

SPECS['C05'] = dict(
    level='other',
    explanation='Solver-based: CrossHair executes the real TimeoutHandler scan / hard-timeout / kill code and the real supervision code '
                'in the stubbed process world with symbolic pool-level and per-job limits, clock advances, event order (scan, scan '
                'pre-empted by the result handler, result handling, worker completion), TERM obedience and process-group leadership; '
                'the worker side runs the real Worker.__call__/workloop with a termination signal at a symbolic crash point.',
    functions=TIMEOUT_FUNCS + POOL_FUNCS[:16] + WORKER_FUNCS,
    bounds={'quick': 'pool size 1..2; limits in [0,50] (0 = none); 3 events, each preceded by a clock advance in [0,105], last one a scan; '
                     'other job kinds map/imap/imap_unordered in the cache; worker: 2 tasks, crash point <= 90',
            'thorough': '4 events; worker: 3 tasks'},
    outside=['that the kernel delivers the signals and the process disappears', 'float clocks', 'more than 2 workers'],
    assumptions=POOL_ASSUME + WORKER_ASSUME + ['a worker that obeys TERM is gone within the 0.1 s wait; one that does not is killed by KILL'],
    trusted_base=TRUST,
    obligations=(
        parts(ch('hard-limit', 'harness.c05', 'h_hard', 'job fails with TimeLimitExceeded(H) at the first scan with now >= accept+H, '
                 'H = job limit else pool limit; TERM then KILL if it lingers; nothing before; late result ignored; pool restored and '
                 'serves a later job', timeout=(300, 1500)), 8)
        + parts(twin('hard-limit', 'harness.c05', 'h_hard_twin', 'a run reaching the expiry branch exists'), 8)
        + parts(ch('other-kinds', 'harness.c05', 'h_others', 'map/imap/imap_unordered jobs on a pool with default limits: every scan '
                   'returns, no signal, never timed out, job completes', timeout=(200, 900)), 6)
        + parts(twin('other-kinds', 'harness.c05', 'h_others_twin', 'the scans are reached'), 6)
        + [smt('instrumentation-valid', 'harness.c03', 'v_instrumentation', 'instrumented workloop == original on concrete scripts', kind='validate')]
        + _term
    ),
)

SPECS['C06'] = dict(
    level='other',
    explanation='Solver-based: CrossHair executes the real scan / soft-timeout code in the stubbed process world with symbolic pool and '
                'job soft limits, a job hard limit, clock advances and event order including a scan pre-empted by the result handler; '
                'the worker side delivers the real soft_timeout_sighandler at a symbolic crash point inside the real work loop.',
    functions=TIMEOUT_FUNCS + WORKER_FUNCS,
    bounds=SPECS['C05']['bounds'],
    outside=['signal delivery by the kernel', 'a soft signal that reaches the worker after its task returned (race inherent to signals)'],
    assumptions=POOL_ASSUME + WORKER_ASSUME,
    trusted_base=TRUST,
    obligations=(
        parts(ch('soft-limit', 'harness.c05', 'h_soft', 'SIG_SOFT_TIMEOUT sent exactly once, at the first scan with now >= accept+S and before '
                 'the hard path took the job, S = job soft limit else pool default, callback soft=True/timeout=S; never for a job whose '
                 'result was processed (also when the result handler runs between snapshot and check)', timeout=(300, 1500)), 16)
        + parts(twin('soft-limit', 'harness.c05', 'h_soft_twin', 'a run reaching the soft-expiry branch exists'), 16)
        + parts(ch('worker-soft', 'harness.c03', 'h_soft', 'handler runs inside task j: SoftTimeLimitExceeded seen by task j only; a task '
                   'that catches it has its value delivered; other jobs unaffected', timeout=(300, 1500)), 6)
        + parts(twin('worker-soft', 'harness.c03', 'h_soft_twin', 'a run with the signal inside a task exists'), 6)
        + [smt('instrumentation-valid', 'harness.c03', 'v_instrumentation', 'instrumented workloop == original on concrete scripts', kind='validate')]
    ),
)

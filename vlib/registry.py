"""Obligations per property (data only; nothing from /repo is imported here)."""

SPECS = {}


def ch(name, module, function, what, bounds=None, timeout=(120, 1200), expect='confirmed', twin_of=None, **kw):
    d = dict(name=name, kind='ch', module=module, function=function, what=what,
             bounds=bounds, timeout=timeout, expect=expect, twin_of=twin_of)
    d.update(kw)
    return d


def twin(of, module, function, what, timeout=(120, 600), **kw):
    return ch(of + '/twin', module, function, what, timeout=timeout, expect='refuted', twin_of=of, **kw)


def smt(name, module, function, what, bounds=None, timeout=(120, 1200), kind='smt', **kw):
    d = dict(name=name, kind=kind, module=module, function=function, what=what,
             bounds=bounds, timeout=timeout, expect='confirmed', twin_of=None)
    d.update(kw)
    return d


def parts(ob, n, tiers=('quick', 'thorough')):
    """split one obligation into n parts (VERIF_PART/VERIF_NPART in the worker's environment)"""
    out = []
    for k in range(n):
        d = dict(ob)
        d['name'] = '%s[%d/%d]' % (ob['name'], k, n)
        d['env'] = dict(ob.get('env') or {}, VERIF_PART=str(k), VERIF_NPART=str(n))
        if ob.get('twin_of'):
            d['twin_of'] = '%s[%d/%d]' % (ob['twin_of'], k, n)
        out.append(d)
    return out


TRUST = ['CrossHair 0.0.110 (symbolic execution of CPython bytecode semantics)', 'z3 5.1.0 (python wheel)',
         'CPython 3.12.1', 'the stub set listed under assumptions']

SPECS['C11'] = dict(
    level='other',
    explanation='Solver-based: CrossHair executes the real billiard.common.restart_state.step symbolically over a bounded '
                'sequence of calls with symbolic instants, budget, window and ack positions and compares every step with a '
                'ghost-history oracle; z3 proves one inductive step of the translated transition for histories of any length.',
    functions=['billiard.common.restart_state.step', 'billiard.common.restart_state.__init__'],
    bounds={'quick': 'steps=5, 1<=maxR<=3, maxT>=1 unbounded int, instants unbounded non-decreasing ints',
            'thorough': 'steps=7, 1<=maxR<=4'},
    outside=['floating-point rounding of instants', 'monotonic()==0 (T falsy)'],
    assumptions=['time is an integer tick count inside CrossHair; the real-valued kernel is re-proved by the E3 lemma',
                 'monotonic() > 0 (Linux CLOCK_MONOTONIC is time since boot)'],
    trusted_base=TRUST,
    obligations=[
        ch('restart-bounded', 'harness.c11', 'h_restart', 'real step() vs ghost-history oracle, symbolic times/budget/window/acks',
           timeout=(150, 1200), quick_only=True),
        twin('restart-bounded', 'harness.c11', 'h_restart_twin', 'a run in which RestartFreqExceeded is raised exists', quick_only=True),
    ] + parts(ch('restart-bounded-t', 'harness.c11', 'h_restart', 'same, 6 steps, split on the first three ack flags',
                 timeout=(150, 1500), thorough_only=True), 8)
      + parts(twin('restart-bounded-t', 'harness.c11', 'h_restart_twin', 'a raising run exists in this part', thorough_only=True), 8),
)

NOT_APPLICABLE = {
    'C15': 'every clause but isolation lives in ctypes/mmap/the kernel: a Python-level symbolic executor realises every value at the '
           'first ctypes call and no C/kernel engine is installed; the isolation clause is discharged under C14 (DESIGN.md section 9)',
}

ENGINES = [
    {'name': 'E1', 'path': 'vlib/chworker.py + harness/', 'kind_free_text': 'CrossHair symbolic execution of the real functions in a stubbed world',
     'serves_properties': []},
    {'name': 'E2', 'path': 'vlib/py2ts.py + vlib/bmc.py', 'kind_free_text': 'Python AST -> transition system -> z3 bit-vector BMC of interleavings',
     'serves_properties': []},
    {'name': 'E3', 'path': 'vlib/smt.py', 'kind_free_text': 'AST -> SMT lemmas / inductive steps, z3 cross-checked with cvc5',
     'serves_properties': []},
]

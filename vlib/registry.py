"""Obligations per property (data only; nothing from /repo is imported here)."""

SPECS = {}


def ch(name, module, function, what, bounds=None, timeout=(120, 1200), expect='confirmed', twin_of=None, **kw):
    d = dict(name=name, kind='ch', module=module, function=function, what=what,
             bounds=bounds, timeout=timeout, expect=expect, twin_of=twin_of)
    d.update(kw)
    return d


def twin(of, module, function, what, timeout=(120, 600), **kw):
    return ch(of + '/twin', module, function, what, timeout=timeout, expect='refuted', twin_of=of, **kw)


def smt(name, module, function, what, bounds=None, timeout=(120, 1200), kind='smt', **kw):
    d = dict(name=name, kind=kind, module=module, function=function, what=what,
             bounds=bounds, timeout=timeout, expect='confirmed', twin_of=None)
    d.update(kw)
    return d


def parts(ob, n, tiers=('quick', 'thorough')):
    """split one obligation into n parts (VERIF_PART/VERIF_NPART in the worker's environment)"""
    out = []
    for k in range(n):
        d = dict(ob)
        d['name'] = '%s[%d/%d]' % (ob['name'], k, n)
        d['env'] = dict(ob.get('env') or {}, VERIF_PART=str(k), VERIF_NPART=str(n))
        if ob.get('twin_of'):
            d['twin_of'] = '%s[%d/%d]' % (ob['twin_of'], k, n)
        out.append(d)
    return out


TRUST = ['CrossHair 0.0.110 (symbolic execution of CPython bytecode semantics)', 'z3 5.1.0 (python wheel)',
         'CPython 3.12.1', 'the stub set listed under assumptions']

SPECS['C11'] = dict(
    level='other',
    explanation='Solver-based: CrossHair executes the real billiard.common.restart_state.step symbolically over a bounded '
                'sequence of calls with symbolic instants, budget, window and ack positions and compares every step with a '
                'ghost-history oracle; z3 proves one inductive step of the translated transition for histories of any length.',
    functions=['billiard.common.restart_state.step', 'billiard.common.restart_state.__init__'],
    bounds={'quick': 'steps=5, 1<=maxR<=3, maxT>=1 unbounded int, instants unbounded non-decreasing ints',
            'thorough': 'steps=7, 1<=maxR<=4'},
    outside=['floating-point rounding of instants', 'monotonic()==0 (T falsy)'],
    assumptions=['time is an integer tick count inside CrossHair; the real-valued kernel is re-proved by the E3 lemma',
                 'monotonic() > 0 (Linux CLOCK_MONOTONIC is time since boot)'],
    trusted_base=TRUST,
    obligations=[
        ch('restart-bounded', 'harness.c11', 'h_restart', 'real step() vs ghost-history oracle, symbolic times/budget/window/acks',
           timeout=(150, 1200), quick_only=True),
        twin('restart-bounded', 'harness.c11', 'h_restart_twin', 'a run in which RestartFreqExceeded is raised exists', quick_only=True),
    ] + parts(ch('restart-bounded-t', 'harness.c11', 'h_restart', 'same, 6 steps, split on the first three ack flags',
                 timeout=(150, 1500), thorough_only=True), 8)
      + parts(twin('restart-bounded-t', 'harness.c11', 'h_restart_twin', 'a raising run exists in this part', thorough_only=True), 8),
)

NOT_APPLICABLE = {
    'C15': 'every clause but isolation lives in ctypes/mmap/the kernel: a Python-level symbolic executor realises every value at the '
           'first ctypes call and no C/kernel engine is installed; the isolation clause is discharged under C14 (DESIGN.md section 9)',
}

ENGINES = [
    {'name': 'E1', 'path': 'vlib/chworker.py + harness/', 'kind_free_text': 'CrossHair symbolic execution of the real functions in a stubbed world',
     'serves_properties': []},
    {'name': 'E2', 'path': 'vlib/py2ts.py + vlib/bmc.py', 'kind_free_text': 'Python AST -> transition system -> z3 bit-vector BMC of interleavings',
     'serves_properties': []},
    {'name': 'E3', 'path': 'vlib/smt.py', 'kind_free_text': 'AST -> SMT lemmas / inductive steps, z3 cross-checked with cvc5',
     'serves_properties': []},
]

POOL_FUNCS = ['billiard.pool.Pool.__init__', 'Pool._create_worker_process', 'Pool.apply_async', 'Pool._map_async', 'Pool.imap',
              'Pool.imap_unordered', 'Pool._get_tasks', 'TaskHandler.body', 'ResultHandler._make_methods(on_ack,on_ready,on_state_change)',
              'ResultHandler._process_result', 'ResultHandler.handle_event', 'Pool._maintain_pool', 'Pool._join_exited_workers',
              'Pool._repopulate_pool', 'Pool._avail_index', 'Pool.on_job_process_lost', 'Pool.mark_as_worker_lost',
              'ApplyResult.*', 'MapResult.*', 'IMapIterator.*', 'IMapUnorderedIterator.*', 'billiard.einfo.ExceptionInfo']
POOL_ASSUME = [
    'environment stubs (harness/world.py): fake Process/Popen/SimpleQueue/Value/Event context, integer clock bound to pool.monotonic, '
    'pool._kill/os.killpg/os.getpgid/time.sleep bound to the world',
    'pool.human_status / error / debug / warning replaced by recorders (str.format on a symbolic int realises it)',
    'worker stubs emit exactly the message grammar established for the real Worker.workloop under C03: per task ACK then one READY; '
    'a worker dies only mid-task or between jobs',
    'pipes deliver whole messages in FIFO order (C13 owns framing)',
]

SPECS['C04'] = dict(
    level='other',
    explanation='Solver-based: CrossHair executes the real pool supervision and result-dispatch code inside a stubbed process world; '
                'exit status, clock advances, lost-worker timeout and the order of ticks / result handling / worker progress are '
                'solver variables; a monitor written from the statement checks who is reported lost, when, and that the pool is restored.',
    functions=POOL_FUNCS,
    bounds={'quick': 'pool of 2; 4 events after the death, each preceded by a clock advance in [0,205]; status in [-64,255]; '
                     'lost_worker_timeout in [1,100]; kinds apply/map/imap/imap_unordered',
            'thorough': 'same with 5 events'},
    outside=['more than two workers / more than two concurrently running jobs', 'real processes and pipes', 'float clocks'],
    assumptions=POOL_ASSUME + ['A-drain: a message already in the result pipe is read before lost_worker_timeout elapses'],
    trusted_base=TRUST,
    obligations=(
        parts(ch('mid-task-death', 'harness.c04', 'h_mid', 'worker dies mid-task with any status: its job and only its job is lost, '
                 'not before the timeout, reported on every handle kind, pool restored', timeout=(240, 1500)), 8)
        + parts(twin('mid-task-death', 'harness.c04', 'h_mid_twin', 'a run in which the loss is reported exists'), 8)
        + parts(ch('exit-after-work', 'harness.c04', 'h_after', 'worker exits between jobs with any status (result handled before or '
                   'after): nothing is ever reported lost and the job completes with its real result', timeout=(240, 1500)), 4)
        + parts(twin('exit-after-work', 'harness.c04', 'h_after_twin', 'a run in which the worker exits exists'), 4)
    ),
)

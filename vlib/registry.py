"""Obligations per property (data only; nothing from /repo is imported here)."""

SPECS = {}


def ch(name, module, function, what, bounds=None, timeout=(120, 1200), expect='confirmed', twin_of=None, **kw):
    d = dict(name=name, kind='ch', module=module, function=function, what=what,
             bounds=bounds, timeout=timeout, expect=expect, twin_of=twin_of)
    d.update(kw)
    return d


def twin(of, module, function, what, timeout=(120, 600), **kw):
    return ch(of + '/twin', module, function, what, timeout=timeout, expect='refuted', twin_of=of, **kw)


def smt(name, module, function, what, bounds=None, timeout=(120, 1200), kind='smt', **kw):
    d = dict(name=name, kind=kind, module=module, function=function, what=what,
             bounds=bounds, timeout=timeout, expect='confirmed', twin_of=None)
    d.update(kw)
    return d


def parts(ob, n, tiers=('quick', 'thorough')):
    """split one obligation into n parts (VERIF_PART/VERIF_NPART in the worker's environment)"""
    out = []
    for k in range(n):
        d = dict(ob)
        d['name'] = '%s[%d/%d]' % (ob['name'], k, n)
        d['env'] = dict(ob.get('env') or {}, VERIF_PART=str(k), VERIF_NPART=str(n))
        if ob.get('twin_of'):
            d['twin_of'] = '%s[%d/%d]' % (ob['twin_of'], k, n)
        out.append(d)
    return out


TRUST = ['CrossHair 0.0.110 (symbolic execution of CPython bytecode semantics)', 'z3 5.1.0 (python wheel)',
         'CPython 3.12.1', 'the stub set listed under assumptions']

SPECS['C11'] = dict(
    level='other',
    explanation='Solver-based: CrossHair executes the real billiard.common.restart_state.step symbolically over a bounded '
                'sequence of calls with symbolic instants, budget, window and ack positions and compares every step with a '
                'ghost-history oracle; z3 proves one inductive step of the translated transition for histories of any length.',
    functions=['billiard.common.restart_state.step', 'billiard.common.restart_state.__init__'],
    bounds={'quick': 'steps=5, 1<=maxR<=3, maxT>=1 unbounded int, instants unbounded non-decreasing ints',
            'thorough': 'steps=7, 1<=maxR<=4'},
    outside=['floating-point rounding of instants', 'monotonic()==0 (T falsy)'],
    assumptions=['time is an integer tick count inside CrossHair; the real-valued kernel is re-proved by the E3 lemma',
                 'monotonic() > 0 (Linux CLOCK_MONOTONIC is time since boot)'],
    trusted_base=TRUST,
    obligations=[
        ch('restart-bounded', 'harness.c11', 'h_restart', 'real step() vs ghost-history oracle, symbolic times/budget/window/acks',
           timeout=(150, 1200), quick_only=True),
        twin('restart-bounded', 'harness.c11', 'h_restart_twin', 'a run in which RestartFreqExceeded is raised exists', quick_only=True),
    ] + parts(ch('restart-bounded-t', 'harness.c11', 'h_restart', 'same, 6 steps, split on the first three ack flags',
                 timeout=(150, 1500), thorough_only=True), 8)
      + parts(twin('restart-bounded-t', 'harness.c11', 'h_restart_twin', 'a raising run exists in this part', thorough_only=True), 8),
)

NOT_APPLICABLE = {
    'C15': 'every clause but isolation lives in ctypes/mmap/the kernel: a Python-level symbolic executor realises every value at the '
           'first ctypes call and no C/kernel engine is installed; the isolation clause is discharged under C14 (DESIGN.md section 9)',
}

ENGINES = [
    {'name': 'E1', 'path': 'vlib/chworker.py + harness/', 'kind_free_text': 'CrossHair symbolic execution of the real functions in a stubbed world',
     'serves_properties': []},
    {'name': 'E2', 'path': 'vlib/py2ts.py + vlib/bmc.py', 'kind_free_text': 'Python AST -> transition system -> z3 bit-vector BMC of interleavings',
     'serves_properties': []},
    {'name': 'E3', 'path': 'vlib/smt.py', 'kind_free_text': 'AST -> SMT lemmas / inductive steps, z3 cross-checked with cvc5',
     'serves_properties': []},
]

POOL_FUNCS = ['billiard.pool.Pool.__init__', 'Pool._create_worker_process', 'Pool.apply_async', 'Pool._map_async', 'Pool.imap',
              'Pool.imap_unordered', 'Pool._get_tasks', 'TaskHandler.body', 'ResultHandler._make_methods(on_ack,on_ready,on_state_change)',
              'ResultHandler._process_result', 'ResultHandler.handle_event', 'Pool._maintain_pool', 'Pool._join_exited_workers',
              'Pool._repopulate_pool', 'Pool._avail_index', 'Pool.on_job_process_lost', 'Pool.mark_as_worker_lost',
              'ApplyResult.*', 'MapResult.*', 'IMapIterator.*', 'IMapUnorderedIterator.*', 'billiard.einfo.ExceptionInfo']
POOL_ASSUME = [
    'environment stubs (harness/world.py): fake Process/Popen/SimpleQueue/Value/Event context, integer clock bound to pool.monotonic, '
    'pool._kill/os.killpg/os.getpgid/time.sleep bound to the world',
    'pool.human_status / error / debug / warning replaced by recorders (str.format on a symbolic int realises it)',
    'worker stubs emit exactly the message grammar established for the real Worker.workloop under C03: per task ACK then one READY; '
    'a worker dies only mid-task or between jobs',
    'pipes deliver whole messages in FIFO order (C13 owns framing)',
]

SPECS['C04'] = dict(
    level='other',
    explanation='Solver-based: CrossHair executes the real pool supervision and result-dispatch code inside a stubbed process world; '
                'exit status, clock advances, lost-worker timeout and the order of ticks / result handling / worker progress are '
                'solver variables; a monitor written from the statement checks who is reported lost, when, and that the pool is restored.',
    functions=POOL_FUNCS,
    bounds={'quick': 'pool of 2; 4 events after the death, each preceded by a clock advance in [0,205]; status in [-64,255]; '
                     'lost_worker_timeout in [1,100]; kinds apply/map/imap/imap_unordered',
            'thorough': 'same with 5 events'},
    outside=['more than two workers / more than two concurrently running jobs', 'real processes and pipes', 'float clocks'],
    assumptions=POOL_ASSUME + ['A-drain: a message already in the result pipe is read before lost_worker_timeout elapses'],
    trusted_base=TRUST,
    obligations=(
        parts(ch('mid-task-death', 'harness.c04', 'h_mid', 'worker dies mid-task with any status: its job and only its job is lost, '
                 'not before the timeout, reported on every handle kind, pool restored', timeout=(240, 1500)), 8)
        + parts(twin('mid-task-death', 'harness.c04', 'h_mid_twin', 'a run in which the loss is reported exists'), 8)
        + parts(ch('exit-after-work', 'harness.c04', 'h_after', 'worker exits between jobs with any status (result handled before or '
                   'after): nothing is ever reported lost and the job completes with its real result', timeout=(240, 1500)), 4)
        + parts(twin('exit-after-work', 'harness.c04', 'h_after_twin', 'a run in which the worker exits exists'), 4)
    ),
)

WORKER_FUNCS = ['billiard.pool.Worker.workloop (statement-instrumented from current source)', 'Worker.__call__', 'Worker._do_exit',
                'Worker._make_child_methods', 'Worker._make_protected_receive', 'Worker._make_recv_method',
                'Worker._ensure_messages_consumed', 'billiard.common._shutdown_cleanup', 'billiard.pool.soft_timeout_sighandler',
                'billiard.einfo.ExceptionInfo', 'billiard.pool.MaybeEncodingError']
WORKER_ASSUME = [
    'worker-side stubs (harness/workerh.py): request/result/syn queues as scripted FIFOs, os._exit raising a private exception, '
    'time.sleep and mem_rss recorders, after_fork (closing descriptors, installing real signal handlers) skipped',
    'a signal handler runs between two statements of workloop or inside a stub call (symbolic crash point); '
    'the instrumentation is validated against the original function on concrete scripts every run',
    'traceback text formatting replaced by a constant (C12 owns it)',
]

SPECS['C03'] = dict(
    level='other',
    explanation='Solver-based: CrossHair executes the real Worker.workloop over scripted queues with symbolic task outcomes, quota, '
                'SYN answers (ACK/NACK after silence) and consumed-counter, and checks the message grammar from the statement; the '
                'parent side (accept callback before result callback, owner recorded, NACK for a cancelled job) runs the real '
                'ResultHandler/ApplyResult code.',
    functions=WORKER_FUNCS + ['billiard.pool.ApplyResult._ack', 'ResultHandler on_ack/on_ready'],
    bounds={'quick': '3 tasks per script, outcomes {return, raise Exception, raise BaseException, unserialisable}, quota 0..3, '
                     'NACK/ACK per task after 0..2 silent polls', 'thorough': '4 tasks'},
    outside=['real pipes and pickling of arbitrary results', 'more than 4 tasks per worker life'],
    assumptions=WORKER_ASSUME,
    trusted_base=TRUST,
    obligations=[
        smt('instrumentation-valid', 'harness.c03', 'v_instrumentation', 'instrumented workloop == original on concrete scripts', kind='validate'),
    ] + parts(ch('worker-protocol', 'harness.c03', 'h_protocol', 'ACK(pid,time) before run, exactly one READY per job, quota, exit status, '
                 'consumption guard', timeout=(300, 1500)), 9)
      + parts(twin('worker-protocol', 'harness.c03', 'h_protocol_twin', 'a run ending with the recycle status exists'), 9)
      + [ch('worker-unpicklable', 'harness.c03', 'h_unpicklable', 'unserialisable result at any set of positions: exactly one '
            'READY(False, MaybeEncodingError) for that job, loop continues', timeout=(200, 900), nontrivial_witness=True)]
      + parts(ch('worker-synack', 'harness.c03', 'h_synack', 'NACKed job never executed and not counted; ACKed job runs after the answer',
                 timeout=(300, 1500)), 4)
      + parts(twin('worker-synack', 'harness.c03', 'h_synack_twin', 'a run with a refused job exists'), 4),
)

TIMEOUT_FUNCS = ['billiard.pool.TimeoutHandler.handle_event', 'TimeoutHandler.handle_timeouts', 'TimeoutHandler.on_hard_timeout',
                 'TimeoutHandler.on_soft_timeout', 'TimeoutHandler._trywaitkill', 'TimeoutHandler._process_by_pid',
                 'ApplyResult.handle_timeout', 'Pool.apply_async (limit precedence)']

_term = (parts(ch('worker-termination', 'harness.c03', 'h_termination', 'termination signal (any hooked number) delivered at any statement '
                  'boundary of the work loop or inside any stub call: no task body starts afterwards, exit callback once, DEATH notice, '
                  'exit with the handler status', timeout=(300, 1500)), 8)
         + parts(twin('worker-termination', 'harness.c03', 'h_termination_twin', 'a run in which the signal is delivered exists'), 8))

SPECS['C05'] = dict(
    level='other',
    explanation='Solver-based: CrossHair executes the real TimeoutHandler scan / hard-timeout / kill code and the real supervision code '
                'in the stubbed process world with symbolic pool-level and per-job limits, clock advances, event order (scan, scan '
                'pre-empted by the result handler, result handling, worker completion), TERM obedience and process-group leadership; '
                'the worker side runs the real Worker.__call__/workloop with a termination signal at a symbolic crash point.',
    functions=TIMEOUT_FUNCS + POOL_FUNCS[:16] + WORKER_FUNCS,
    bounds={'quick': 'pool size 1..2; limits in [0,50] (0 = none); 3 events, each preceded by a clock advance in [0,105], last one a scan; '
                     'other job kinds map/imap/imap_unordered in the cache; worker: 2 tasks, crash point <= 90',
            'thorough': '4 events; worker: 3 tasks'},
    outside=['that the kernel delivers the signals and the process disappears', 'float clocks', 'more than 2 workers'],
    assumptions=POOL_ASSUME + WORKER_ASSUME + ['a worker that obeys TERM is gone within the 0.1 s wait; one that does not is killed by KILL'],
    trusted_base=TRUST,
    obligations=(
        parts(ch('hard-limit', 'harness.c05', 'h_hard', 'job fails with TimeLimitExceeded(H) at the first scan with now >= accept+H, '
                 'H = job limit else pool limit; TERM then KILL if it lingers; nothing before; late result ignored; pool restored and '
                 'serves a later job', timeout=(300, 1500)), 8)
        + parts(twin('hard-limit', 'harness.c05', 'h_hard_twin', 'a run reaching the expiry branch exists'), 8)
        + parts(ch('other-kinds', 'harness.c05', 'h_others', 'map/imap/imap_unordered jobs on a pool with default limits: every scan '
                   'returns, no signal, never timed out, job completes', timeout=(200, 900)), 6)
        + parts(twin('other-kinds', 'harness.c05', 'h_others_twin', 'the scans are reached'), 6)
        + [smt('instrumentation-valid', 'harness.c03', 'v_instrumentation', 'instrumented workloop == original on concrete scripts', kind='validate')]
        + _term
    ),
)

SPECS['C06'] = dict(
    level='other',
    explanation='Solver-based: CrossHair executes the real scan / soft-timeout code in the stubbed process world with symbolic pool and '
                'job soft limits, a job hard limit, clock advances and event order including a scan pre-empted by the result handler; '
                'the worker side delivers the real soft_timeout_sighandler at a symbolic crash point inside the real work loop.',
    functions=TIMEOUT_FUNCS + WORKER_FUNCS,
    bounds=SPECS['C05']['bounds'],
    outside=['signal delivery by the kernel', 'a soft signal that reaches the worker after its task returned (race inherent to signals)'],
    assumptions=POOL_ASSUME + WORKER_ASSUME,
    trusted_base=TRUST,
    obligations=(
        parts(ch('soft-limit', 'harness.c05', 'h_soft', 'SIG_SOFT_TIMEOUT sent exactly once, at the first scan with now >= accept+S and before '
                 'the hard path took the job, S = job soft limit else pool default, callback soft=True/timeout=S; never for a job whose '
                 'result was processed (also when the result handler runs between snapshot and check)', timeout=(300, 1500)), 16)
        + parts(twin('soft-limit', 'harness.c05', 'h_soft_twin', 'a run reaching the soft-expiry branch exists'), 16)
        + parts(ch('worker-soft', 'harness.c03', 'h_soft', 'handler runs inside task j: SoftTimeLimitExceeded seen by task j only; a task '
                   'that catches it has its value delivered; other jobs unaffected', timeout=(300, 1500)), 6)
        + parts(twin('worker-soft', 'harness.c03', 'h_soft_twin', 'a run with the signal inside a task exists'), 6)
        + [smt('instrumentation-valid', 'harness.c03', 'v_instrumentation', 'instrumented workloop == original on concrete scripts', kind='validate')]
    ),
)

SPECS['C01'] = dict(
    level='other',
    explanation='Solver-based: CrossHair drives the real pool (submission, task feeding, result dispatch, supervision, terminate_job) in the '
                'stubbed process world through a symbolic event vector (worker takes / finishes / dies with any status, duplicate and late '
                'messages, result-handler turns, ticks with clock advances, a failing send at a symbolic index) and a monitor checks after '
                'every event: outcome stable once observable, callbacks at most once, outcome is the job\'s own or a justified pool-made '
                'failure, and at quiescence every accepted job is resolved.',
    functions=POOL_FUNCS + ['Pool.terminate_job', 'ApplyResult._set_terminated'],
    bounds={'quick': 'pool of 2; job A = apply, job B in {apply, map(2 chunks), imap_unordered(2 items)}; 5 events from the menu; '
                     'statuses in [-15,3]; one raising part at a symbolic position; failing send at index 0..2',
            'thorough': '6 events'},
    outside=['more than 2 jobs / workers', 'ordered imap (its loss reporting is finding F6 under C04)', 'real threads'],
    assumptions=POOL_ASSUME,
    trusted_base=TRUST,
    obligations=(
        parts(ch('dispatch', 'harness.c01', 'h_dispatch', 'take/finish/duplicate/late messages in any order: single stable own outcome, callbacks once, '
                 'all resolved at quiescence', timeout=(300, 1500)), 12)
        + parts(ch('faults', 'harness.c01', 'h_fault', 'workers die with any status mid-task or idle, ticks and clock advances interleaved: '
                   'WorkerLostError only for the job whose worker died holding it', timeout=(300, 1500)), 18)
        + parts(twin('dispatch', 'harness.c01', 'h_dispatch_twin', 'a run handling a duplicate message exists'), 12)
        + parts(twin('faults', 'harness.c01', 'h_fault_twin', 'a run reporting a lost job exists'), 18)
        + parts(twin('terminate-job', 'harness.c01', 'h_term_twin', 'a run terminating a busy worker exists'), 6)
        + parts(ch('terminate-job', 'harness.c01', 'h_term', 'terminate_job on a busy worker: Terminated for exactly its job', timeout=(300, 1500)), 6)
        + parts(ch('send-failure', 'harness.c01', 'h_send', 'a task that cannot be written (symbolic index): the failure lands on that job and only it; '
                   'every job still resolves', timeout=(300, 1500)), 3)
        + parts(twin('send-failure', 'harness.c01', 'h_send_twin', 'the failing send is reached'), 3)
    ),
)

SPECS['C10'] = dict(
    level='other',
    explanation='Solver-based: (a) CrossHair proves one step of every LaxBoundedSemaphore operation from an arbitrary valid state '
                '(0<=value<=bound<=1000), so the bound holds for histories of any length; (b) CrossHair drives the real pool with '
                'put-locks in the stubbed process world through a symbolic event vector and checks conservation (bound-value = jobs '
                'in flight while no worker exits), blocking exactly at the bound, and all slots free at quiescence; (c) the thread '
                'races release||clear etc. are decided by the z3 BMC of the compiled methods.',
    functions=['billiard.pool.LaxBoundedSemaphore.acquire/release/grow/shrink/clear', 'Pool.apply_async (slot taken)',
               'ResultHandler on_ready (slot returned)', 'Pool._maintain_pool (slot returned on replacement)', 'Pool.grow/shrink'] + POOL_FUNCS,
    bounds={'quick': '(a) any 0<=value<=bound<=1000, clear with bound-value<=4; (b) pool of 2, <=3 apply jobs (+1 map job / failing send / '
                     'worker exits), 5 events', 'thorough': '6 events'},
    outside=['more than 2 slots in the pool scenarios', 'discard() (not in the property alphabet)'],
    assumptions=POOL_ASSUME + ['the blocking branch of acquire raises WouldBlock instead of sleeping (subclass of the real semaphore)'],
    trusted_base=TRUST,
    obligations=(
        [ch('sem-step', 'harness.c10', 'h_sem_step', 'one step of acquire/release/grow/shrink/clear from any valid state keeps 0<=value<=bound '
            'and has the documented effect (inductive: histories of any length)', timeout=(120, 600)),
         twin('sem-step', 'harness.c10', 'h_sem_step_twin', 'the capped release (value == bound) is reached')]
        + parts(ch('pool-slots', 'harness.c10', 'h_pool', 'conservation / blocking at the bound / all slots free at quiescence, histories of '
                   'submissions, takes, results, exits, ticks, a map job, a failing send', timeout=(300, 1500)), 8)
        + parts(twin('pool-slots', 'harness.c10', 'h_pool_twin', 'a run in which apply_async blocks exists'), 8)
    ),
)

SPECS['C09'] = dict(
    level='other',
    explanation='Solver-based: CrossHair drives the real supervision code (reap, repopulate, slot indices, grow, shrink) through a symbolic '
                'sequence of worker exits with any status, grow/shrink calls and ticks, and a recycling pool (per-child quota) through '
                'symbolic orders of takes, results, result handling and ticks for every job kind; the worker side of the quota and of the '
                'memory limit runs the real Worker.workloop.',
    functions=POOL_FUNCS + ['Pool.grow', 'Pool.shrink', 'Pool._iterinactive', 'Pool._worker_active'] + WORKER_FUNCS,
    bounds={'quick': 'pool of 3 (size 1..4 after grow/shrink), 5 events; recycling: pool of 2, quota 1..2, 3 parts, 8 events',
            'thorough': '6 / 9 events'},
    outside=['real processes', 'pool sizes above 4'],
    assumptions=POOL_ASSUME + WORKER_ASSUME + ['a worker told to terminate while idle exits at once (C08 worker side)'],
    trusted_base=TRUST,
    obligations=(
        [ch('pool-size', 'harness.c09', 'h_size', 'after every tick: len(pool)==configured size, distinct slot indices below it, no dead worker kept, '
            'control tables match, slot bound == size', timeout=(300, 1500)),
         twin('pool-size', 'harness.c09', 'h_size_twin', 'a run with a shrink exists')]
        + parts(ch('recycling', 'harness.c09', 'h_recycle', 'per-child quota: no job lost, duplicated, failed or held up; consumed results are '
                   'credited to their sender so that a worker that reached its quota can leave without the 30 s guard', timeout=(300, 1500)), 8)
        + parts(twin('recycling', 'harness.c09', 'h_recycle_twin', 'a run in which a worker is recycled exists'), 8)
        + [smt('instrumentation-valid', 'harness.c03', 'v_instrumentation', 'instrumented workloop == original on concrete scripts', kind='validate'),
           ch('worker-memlimit', 'harness.c03', 'h_memlimit', 'memory limit: the loop returns EX_RECYCLE right after the task that crossed it, after its READY',
              timeout=(300, 1500), nontrivial_witness=True)]
        + parts(ch('worker-quota', 'harness.c03', 'h_protocol', 'at most N task bodies per worker, EX_RECYCLE after the consumption guard', timeout=(300, 1500)), 9)
    ),
)

SPECS['C13'] = dict(
    level='other',
    explanation='Solver-based: CrossHair executes the real framing / write-all / read-exactly / bounds-check code of billiard.connection with '
                'the kernel replaced by stubs bound through the write=/read= default arguments: every write accepts a symbolic number of '
                'bytes or fails with EINTR, every read returns a symbolic number of bytes, EINTR or end-of-stream at a symbolic cut '
                'position; offsets, sizes, maxlength and buffer sizes are symbolic; a second tier makes the payload LENGTH a solver '
                'variable up to 2**31+5 (abstract buffer) to cross the 16384-byte concatenation threshold and the framing limit.',
    functions=['billiard.connection._ConnectionBase.send_bytes', 'recv_bytes', 'recv_bytes_into', '_check_closed/_check_readable/_check_writable',
               '_bad_message_length', 'poll', 'Connection._send', 'Connection._recv', 'Connection._send_bytes', 'Connection._recv_bytes'],
    bounds={'quick': 'payload <= 3 bytes (two messages on the receive side), every fragmentation, one EINTR at a symbolic call, cut at every '
                     'position; threshold tier: 0 <= n <= 2**31+5 with three symbolic partial writes',
            'thorough': 'payload <= 5 bytes'},
    outside=['the kernel (real pipes/sockets), wait()/poll readiness', 'payload contents other than a fixed pattern (the code never inspects them)',
             'pickling in send()/recv()'],
    assumptions=['os.write accepts between 1 and len(buf) bytes or raises EINTR; os.read returns between 1 and min(wanted, available) bytes, '
                 'raises EINTR, or returns b"" once the peer closed', 'struct.pack("!i") replaced by a stand-in in the threshold tier only '
                 '(validated against struct on boundary values every run)'],
    trusted_base=TRUST,
    obligations=[
        ch('send', 'harness.c13', 'h_send', 'bytes accepted by the kernel == header + payload[offset:offset+size], nothing else; invalid '
           'offset/size rejected before any I/O', timeout=(300, 1500)),
        twin('send', 'harness.c13', 'h_send_twin', 'a run with split writes and an EINTR retry exists'),
        ch('recv', 'harness.c13', 'h_recv', 'each message returned exactly, in order; clean EOF only at a boundary; a truncated message raises '
           'and is never delivered', timeout=(300, 1500)),
        twin('recv', 'harness.c13', 'h_recv_twin', 'a run delivering both messages over >= 5 reads exists'),
        ch('limits', 'harness.c13', 'h_limits', 'maxlength never exceeded, connection unreadable/closed afterwards; BufferTooShort carries the whole '
           'message and leaves the buffer untouched; offsets validated before I/O', timeout=(300, 1500), nontrivial_witness=True),
        ch('state', 'harness.c13', 'h_state', 'closed or wrong-direction handles rejected before any I/O', timeout=(120, 600), nontrivial_witness=True),
        ch('threshold', 'harness.c13', 'h_threshold', 'symbolic length across 16384 and 2**31-1: header+payload exactly once, struct.error beyond the limit',
           timeout=(120, 600)),
        twin('threshold', 'harness.c13', 'h_threshold_twin', 'the separate-header branch (n > 16384) is reached'),
        smt('struct-standin', 'harness.c13', 'v_struct', 'FakeStruct == struct on boundary values', kind='validate'),
    ],
)

SPECS['C14'] = dict(
    level='other',
    explanation='Solver-based inductive step: CrossHair builds an arbitrary heap satisfying the representation invariant (symbolic cut points, '
                'live/free pattern, optional second arena, optional pending free), runs ONE real malloc(size) or free(block) with symbolic '
                'arguments - with a garbage-collection-triggered free delivered at a symbolic point inside the operation, or with the lock '
                'already held - and asserts the invariant (exact partition, alignment, merged neighbours, index consistency) and the '
                'property of the returned block afterwards; one step from every valid state covers histories of any length. z3 proves '
                'the arithmetic cut (L-roundup) on the current source, cross-checked with cvc5.',
    functions=['billiard.heap.Heap.__init__', 'Heap.malloc', 'Heap.free', 'Heap._malloc', 'Heap._free', 'Heap._absorb', 'Heap._free_pending_blocks',
               'Heap._roundup (SMT lemma)', 'BufferWrapper.__init__', 'BufferWrapper.create_memoryview'],
    bounds={'quick': 'one arena of <= 8 units of 8 bytes cut into 3 blocks (all 5 live/free patterns without adjacent free blocks), optionally a '
                     'second arena 16|24 free|24; page size scaled to 64; request 0..100 bytes; GC free at call 0..4 of _malloc/_free/_absorb',
            'thorough': '<= 10 units'},
    outside=['mmap contents and real page size (scaled: sizes are realised by hashing of dict keys)', 'true multi-threaded timing beyond '
             'the lock-held flag and the re-entrant GC free', 'pre-states with more than 3 blocks per arena (reached only through the bounded histories)'],
    assumptions=['Arena replaced by a record (size, serial, bytearray)', 'Heap._roundup replaced by ((n+a-1)//a)*a inside CrossHair, justified by L-roundup',
                 'a pre-state that no real history reaches is still a valid state of the invariant (the invariant is what is proved inductive)'],
    trusted_base=TRUST + ['cvc5 1.0.3 binary (cross-check of the lemma)'],
    obligations=(
        [smt('L-roundup', 'vlib.smtlemmas', 'l_roundup', 'for a in {8,64,4096,65536}, all 0<=n<2**63: (n+mask)&~mask == ((n+a-1)//a)*a, >= n, < n+a, multiple of a')]
        + parts(ch('malloc-step', 'harness.c14', 'h_malloc', 'one malloc from any valid state: invariant kept; block >= size, 8-aligned, inside its arena, '
                   'not previously live; no new arena if a free extent fits; GC free inside is deferred', timeout=(300, 1500)), 10)
        + parts(twin('malloc-step', 'harness.c14', 'h_malloc_twin', 'a run with a GC free inside malloc exists'), 10)
        + parts(ch('free-step', 'harness.c14', 'h_free', 'one free from any valid state: invariant kept; merged with both free neighbours; with the '
                   'lock held it is only deferred and the next operation absorbs it', timeout=(300, 1500)), 10)
        + parts(twin('free-step', 'harness.c14', 'h_free_twin', 'a run with the lock already held exists'), 10)
        + [ch('histories', 'harness.c14', 'h_history', 'malloc,malloc,free,malloc,free from the empty heap with symbolic sizes: invariant, no overlap, '
              'sizes honoured (reachability evidence for the invariant)', timeout=(300, 1500), nontrivial_witness=True),
           ch('buffer-wrapper', 'harness.c14', 'h_wrapper', 'two live BufferWrappers: size <= block, view inside the block, disjoint storage, writes do not leak',
              timeout=(300, 1500), nontrivial_witness=True)]
    ),
)

SPECS['C12'] = dict(
    level='other',
    explanation='Solver-based for the depth bound: CrossHair runs the real einfo.Traceback constructor on a synthetic traceback chain of '
                'symbolic length with a symbolic frame limit and checks the number and order of frames kept and the truncation marker. '
                'The unserialisable-result and base-exception clauses run in the worker harness (real Worker.workloop, symbolic scripts). '
                'Type/args/text/traceback stability over pickle round trips is a concrete validation run (pickle is C code: every symbolic '
                'payload is realised, so the solver could only sample there).',
    functions=['billiard.einfo.Traceback.__init__', '_Frame.__init__', '_Code.__init__', '_Truncated', 'ExceptionInfo.__init__',
               'ExceptionWithTraceback.__reduce__', 'rebuild_exc', 'Worker.workloop (MaybeEncodingError path)'],
    bounds={'quick': 'chain length 1..8, frame limit 0..8; worker scripts of 3 tasks', 'thorough': 'chain length 1..14'},
    outside=['"for all exception types and argument tuples" and "unserialisable at any nesting depth": inside pickle (C); covered only by '
             'the concrete validation cases', 'recursion beyond the interpreter limit while the record is being built'],
    assumptions=WORKER_ASSUME,
    trusted_base=TRUST + ['pickle (C)'],
    obligations=[
        ch('depth-limit', 'harness.c12', 'h_depth', 'copy keeps min(L, max_frames+2) frames in order, marker iff longer, total <= max_frames+3', timeout=(300, 1500)),
        twin('depth-limit', 'harness.c12', 'h_depth_twin', 'a truncated copy exists'),
        smt('roundtrip-concrete', 'harness.c12', 'v_roundtrip', 'real exceptions (7 types) x depths incl. beyond the frame limit and 3000 frames: depth bounded, '
            'format_exception accepts the record, type/args/text/traceback unchanged by 3 pickle round trips; __reduce__ shape of the stand-ins', kind='validate'),
        ch('worker-unpicklable', 'harness.c03', 'h_unpicklable', 'unserialisable result at any set of positions: exactly one READY(False, MaybeEncodingError) '
           'for that job, the worker goes on', timeout=(200, 900), nontrivial_witness=True),
    ] + parts(ch('worker-exceptions', 'harness.c03', 'h_protocol', 'Exception / BaseException raised by a task is reported as that job\'s failure with '
                 'type and args intact; the loop continues', timeout=(300, 1500)), 9),
)

SPECS['C19'] = dict(
    level='other',
    explanation='Solver-based: CrossHair runs the real Popen.poll/wait with os.waitpid returning a symbolic (pid, status) / EINTR / ECHILD over '
                'successive polls, the real BaseProcess.start/join/is_alive/exitcode guards with symbolic creator and caller pids, and the '
                'real BaseProcess._bootstrap with run() returning, raising, or calling sys.exit(x) for symbolic x, composed with the kernel '
                'model (code & 0xff) << 8 and the decoder.',
    functions=['billiard.popen_fork.Popen.poll', 'Popen.wait', 'billiard.process.BaseProcess.start', 'join', 'is_alive', 'exitcode', '_bootstrap'],
    bounds={'quick': '3 successive polls over a script of 5 waitpid outcomes; all 16-bit statuses; exit codes -3..300; signals 1..64',
            'thorough': '4 polls'},
    outside=['fork/exec themselves, spawn and forkserver child start-up', 'forkserver Popen.poll (reads the status from a pipe; its 255-on-EOF rule '
             'is two lines and is exercised by the seeded-change demos only)', 'join(timeout) wall-clock'],
    assumptions=['wait-status macros are pure-Python bit operations validated against os.W* on all 65536 statuses every run',
                 'waitpid without WUNTRACED never reports stopped/continued statuses', 'logging re-initialisation, after-fork hooks and '
                 'exit functions in _bootstrap are stubbed'],
    trusted_base=TRUST,
    obligations=[
        smt('waitstatus-model', 'harness.c19', 'v_waitstatus', 'stub validation', kind='validate'),
        ch('poll', 'harness.c19', 'h_poll', 'returncode None until a poll sees the own pid, the decoded status afterwards, never changes, child never waited twice',
           timeout=(300, 1500)),
        twin('poll', 'harness.c19', 'h_poll_twin', 'a run reporting a signal death exists'),
        ch('exit-roundtrip', 'harness.c19', 'h_exit_roundtrip', 'exit(n) -> n for 0..255, signal s (with or without core) -> -s for 1..64', timeout=(200, 900), nontrivial_witness=True),
        ch('wait', 'harness.c19', 'h_wait', 'timed wait returns None without reaping when the child did not end; otherwise the decoded status', timeout=(200, 900), nontrivial_witness=True),
        ch('guards', 'harness.c19', 'h_guards', 'start only once and only by the creator; alive/exitcode None until the end; after join not an active child',
           timeout=(300, 1500), nontrivial_witness=True),
        ch('bootstrap', 'harness.c19', 'h_bootstrap', 'return -> 0, exception -> 1, sys.exit(n) -> n, and n survives kernel + decoder for 0..255', timeout=(300, 1500), nontrivial_witness=True),
    ],
)

SPECS['C18'] = dict(
    level='other',
    explanation='Solver-based: CrossHair runs the real deliver_challenge / answer_challenge in both directions (the order used by Listener.accept '
                'and Client) over in-memory message pairs with symbolic keys, symbolic challenge bytes and symbolic hostile replies at each '
                'step; hmac.new is a stand-in injective on (zero-padding-normalised key, message).',
    functions=['billiard.connection.deliver_challenge', 'answer_challenge', 'Listener.__init__ (key type)', 'Listener.accept', 'Client'],
    bounds={'quick': 'keys of 1..2 bytes, 2 symbolic challenge bytes (+18 fixed), hostile replies <= 6 / verdicts <= 10 bytes',
            'thorough': 'keys of 1..3 bytes'},
    outside=['cryptographic strength of HMAC-MD5 (collision-freedom is assumed)', 'keys longer than the HMAC block size (hashed first)',
             'sockets; AuthenticationString pickling guard (process.py)'],
    assumptions=['hmac.new(key, msg).digest() is injective on (key without trailing NUL bytes, msg) - HMAC pads short keys with zeros',
                 'os.urandom returns arbitrary bytes'],
    trusted_base=TRUST,
    obligations=[
        ch('mutual', 'harness.c18', 'h_mutual', 'both sides finish iff the keys are equal; otherwise both raise AuthenticationError; challenge sent as generated, '
           'one fresh challenge per direction', timeout=(300, 1500)),
        twin('mutual', 'harness.c18', 'h_mutual_twin', 'a refused handshake exists'),
        ch('hostile-answer', 'harness.c18', 'h_hostile_answer', 'any reply other than the exact digest is answered #FAILURE# and raises', timeout=(300, 1500), nontrivial_witness=True),
        ch('hostile-verdict', 'harness.c18', 'h_hostile_verdict', 'the answering side completes only on the exact welcome message', timeout=(300, 1500), nontrivial_witness=True),
        ch('key-type', 'harness.c18', 'h_keytype', 'str / int / bytearray keys raise TypeError before any handshake message', timeout=(120, 600), nontrivial_witness=True),
    ],
)

SPECS['C17'] = dict(
    level='model_checking',
    engine='E2 py2ts + z3 BMC',
    technique='bounded model checking (z3 bit-vectors) of the transition system compiled from the real Python source',
    explanation='Solver-based bounded model checking: the current source of synchronize.Condition.wait/notify/notify_all and '
                'Event.is_set/set/clear/wait is compiled (Python AST -> instruction list over semaphore and mutex operations) and z3 decides, '
                'over ALL interleavings at semaphore-operation granularity with timeouts firing at any step, that untimed waiters present '
                'before a notification are woken, notify wakes at most one, a timed-out wait returns False and leaves the condition '
                'consistent, no assertion of the real code fails, no deadlock, and Event results match the flag. Each unsat answer is '
                'accompanied by an unsat unwinding assertion and a sat reachability witness; witness and counterexample schedules are '
                'replayed step by step against the real classes in real threads.',
    functions=['billiard.synchronize.Condition.wait', 'Condition.notify', 'Condition.notify_all', 'Event.is_set', 'Event.set', 'Event.clear',
               'Event.wait', 'Lock/RLock/Semaphore/BoundedSemaphore.__init__ (CrossHair)'],
    bounds={'quick': 'Condition: 2 waiters (timed or not, symbolic) || 1 notifier doing 1 operation (notify/notify_all, symbolic), K=35 steps (2 operations, K=54, thorough only); '
                     'Event: {wait,wait,set}, {wait,set,clear}, {is_set,set,wait}, K=37..51; 6-bit counters; lock recursion depth 1',
            'thorough': 'plus 3 waiters || 1 operation (K=48)'},
    outside=['more threads / operations than listed', 'Condition.wait_for (a loop around wait with clock arithmetic)', 'RLock recursion depth > 1',
             'the kernel semaphore itself (trusted: mutual exclusion, counting, bounded release)'],
    assumptions=['semaphore model: acquire decrements if positive, non-blocking fails at zero, a timed blocking acquire may give up at any step at '
                 'which the value is zero, release increments; validated against the real SemLock on all single-thread sequences of length 5 every run',
                 'thread-local statements are fused into the preceding shared operation (scheduling points = semaphore/mutex operations)'],
    trusted_base=['z3 5.1.0', 'vlib/py2ts.py translator (fails loudly outside its grammar)', 'CPython _multiprocessing.SemLock', 'CrossHair 0.0.110 (wrappers)'],
    obligations=[
        smt('semaphore-model', 'harness.c17', 'v_semaphore_model', 'semaphore model == real SemLock on short sequences', kind='validate'),
        smt('conformance', 'harness.c17', 'v_conformance', 'solver-found witness runs replay step by step on the real classes (model vs implementation)', kind='validate', timeout=(600, 1200)),
        smt('cond-2w-1op', 'harness.c17', 'ob_cond_2w_1op', 'W1-W7 on 2 waiters || notify/notify_all', timeout=(900, 3000), replay_function='replay'),
        smt('cond-2w-2ops', 'harness.c17', 'ob_cond_2w_2ops', 'W1-W7 on 2 waiters || two successive notifications (22 min)', timeout=(1500, 4000), replay_function='replay', thorough_only=True),
        smt('event-wait-wait-set', 'harness.c17', 'ob_event_wws', 'E1-E7', timeout=(900, 3000), replay_function='replay'),
        smt('event-wait-set-clear', 'harness.c17', 'ob_event_wsc', 'E1-E7', timeout=(900, 3000), replay_function='replay'),
        smt('event-isset-set-wait', 'harness.c17', 'ob_event_isw', 'E1-E7', timeout=(900, 3000), replay_function='replay'),
        smt('cond-3w-1op', 'harness.c17', 'ob_cond_3w_1op', 'W1-W7 on 3 waiters', timeout=(3000, 7000), replay_function='replay', thorough_only=True),
        ch('wrappers', 'harness.c17', 'h_wrappers', 'Lock/RLock/Semaphore/BoundedSemaphore pass (kind, value, maxvalue) to SemLock as documented', timeout=(120, 600), nontrivial_witness=True),
    ],
)

SPECS['C02'] = dict(
    level='other',
    explanation='Solver-based: CrossHair runs the real map/starmap/imap/imap_unordered/apply code (chunking, result assembly, in-order release, '
                'length announcement, exception rebuild through a real pickle round trip) in the stubbed process world; input length, chunk '
                'size (explicit or defaulted), the set of raising positions and the order in which workers take/finish chunks and the result '
                'handler runs are solver variables; the oracle is the sequential map. z3 proves the chunk-tiling arithmetic for c<=64, n<=64.',
    functions=['billiard.pool.Pool._map_async', 'Pool._get_tasks', 'mapstar', 'starmapstar', 'MapResult.__init__/_set/_ack', 'IMapIterator._set/_set_length/next',
               'IMapUnorderedIterator._set', 'TaskHandler.body (set_length)', 'ApplyResult.get', 'billiard.einfo.ExceptionInfo/ExceptionWithTraceback/rebuild_exc'],
    bounds={'quick': 'n <= 4 items, chunk size 0(None)..3, pool of 1..2, any subset of raising positions, 6 symbolic scheduling events then run to completion',
            'thorough': 'n <= 6, chunk <= 7, 8 events'},
    outside=['"arguments and results unchanged up to pickling" for arbitrary objects (pickle is C; payloads are tagged tuples)', 'imap with chunksize > 1 '
             '(flattening generator)', 'pool sizes above 2'],
    assumptions=POOL_ASSUME + ['result payloads cross the fake pipe through pickle.loads(pickle.dumps(.))'],
    trusted_base=TRUST + ['pickle (C)'],
    obligations=(
        [smt('L-chunking', 'harness.c02', 'l_chunking', 'slices tile [0,n); slice count n//c+bool(n%c); defaulted chunk size >= 1')]
        + parts(ch('sequential', 'harness.c02', 'h_seq', 'result == sequential map (values, order / multiset, exception type+args with remote traceback, '
                   'imap error at the failing position then the rest)', timeout=(400, 1800)), 10)
        + parts(twin('sequential', 'harness.c02', 'h_seq_twin', 'the job runs to completion'), 10)
    ),
)

SPECS['C07'] = dict(
    level='other',
    explanation='Solver-based: CrossHair runs the real close()/join() path - TaskHandler.body with its sentinels, ResultHandler.finish_at_shutdown, '
                '_join_exited_workers(shutdown=True), worker joins - in the stubbed process world with every job kind pending at a symbolic '
                'stage of progress; while the result handler sleeps in poll() a symbolically chosen worker moves. Checked: jobs offered after '
                'close are refused, one sentinel per worker and one for the result handler, join returns (budgeted stubs: exhausting the '
                'budget is a hang), every job has its real result, every worker exited, nobody waited out the 30 s consumption guard.',
    functions=['billiard.pool.Pool.close', 'Pool.join', 'TaskHandler.body', 'TaskHandler.tell_others', 'ResultHandler.finish_at_shutdown',
               'ResultHandler.on_stop_not_started', 'Pool._join_exited_workers', 'PoolThread.stop'] + POOL_FUNCS[:12],
    bounds={'quick': 'pool of 1..2; 3 apply jobs or one map/imap/imap_unordered of 3 parts; 3 events of progress before close()', 'thorough': '4 events'},
    outside=['that real threads stop and real children are reaped; wall-clock', 'recycling pools at shutdown (observed: queued jobs are not run once the last worker retired)',
             'the time-limit scanner thread'],
    assumptions=POOL_ASSUME + ['helper threads are played by the harness on one thread (feeder turn = real TaskHandler.body; workers move while the result handler polls)'],
    trusted_base=TRUST,
    obligations=(
        parts(ch('close-join', 'harness.c07', 'h_close_join', 'close() then join(): drains, refuses late jobs, sentinels, no hang, workers gone, no 30 s guard', timeout=(400, 1800)), 8)
        + parts(twin('close-join', 'harness.c07', 'h_close_join_twin', 'join() returns in some run'), 8)
    ),
)

"""Obligations per property (data only; nothing from /repo is imported here)."""

SPECS = {}


def ch(name, module, function, what, bounds=None, timeout=(120, 1200), expect='confirmed', twin_of=None, **kw):
    d = dict(name=name, kind='ch', module=module, function=function, what=what,
             bounds=bounds, timeout=timeout, expect=expect, twin_of=twin_of)
    d.update(kw)
    return d


def twin(of, module, function, what, timeout=(120, 600), **kw):
    return ch(of + '/twin', module, function, what, timeout=timeout, expect='refuted', twin_of=of, **kw)


def smt(name, module, function, what, bounds=None, timeout=(120, 1200), kind='smt', **kw):
    d = dict(name=name, kind=kind, module=module, function=function, what=what,
             bounds=bounds, timeout=timeout, expect='confirmed', twin_of=None)
    d.update(kw)
    return d


def parts(ob, n, tiers=('quick', 'thorough')):
    """split one obligation into n parts (VERIF_PART/VERIF_NPART in the worker's environment)"""
    out = []
    for k in range(n):
        d = dict(ob)
        d['name'] = '%s[%d/%d]' % (ob['name'], k, n)
        d['env'] = dict(ob.get('env') or {}, VERIF_PART=str(k), VERIF_NPART=str(n))
        if ob.get('twin_of'):
            d['twin_of'] = '%s[%d/%d]' % (ob['twin_of'], k, n)
        out.append(d)
    return out


def tiered(make, nq, nt):
    """the same partitioned obligation with nq parts in the quick tier and nt in the thorough tier"""
    out = []
    for d in parts(make(), nq):
        d['quick_only'] = True
        out.append(d)
    for d in parts(make(), nt):
        d['thorough_only'] = True
        d['name'] = d['name'].replace('[', '-t[')
        if d.get('twin_of'):
            d['twin_of'] = d['twin_of'].replace('[', '-t[')
        out.append(d)
    return out


TRUST = ['CrossHair 0.0.110 (symbolic execution of CPython bytecode semantics)', 'z3 5.1.0 (python wheel)',
         'CPython 3.12.1', 'the stub set listed under assumptions']

NOT_APPLICABLE = {
    'C15': 'every clause but isolation lives in ctypes/mmap/the kernel: a Python-level symbolic executor realises every value at the '
           'first ctypes call and no C/kernel engine is installed; the isolation clause is discharged under C14 (DESIGN.md section 9)',
}

ENGINES = [
    {'name': 'E1', 'path': 'vlib/chworker.py + harness/', 'kind_free_text': 'CrossHair symbolic execution of the real functions in a stubbed world',
     'serves_properties': ['C01', 'C02', 'C03', 'C04', 'C05', 'C06', 'C07', 'C08', 'C09', 'C10', 'C11', 'C12', 'C13', 'C14', 'C16', 'C17', 'C18', 'C19', 'C20']},
    {'name': 'E2', 'path': 'vlib/py2ts.py + vlib/bmc.py', 'kind_free_text': 'Python AST -> transition system -> z3 bit-vector BMC of interleavings',
     'serves_properties': ['C17', 'C16', 'C10']},
    {'name': 'E3', 'path': 'vlib/smt.py', 'kind_free_text': 'AST -> SMT lemmas / inductive steps, z3 cross-checked with cvc5',
     'serves_properties': ['C11', 'C14', 'C02']},
]

POOL_FUNCS = ['billiard.pool.Pool.__init__', 'Pool._create_worker_process', 'Pool.apply_async', 'Pool._map_async', 'Pool.imap',
              'Pool.imap_unordered', 'Pool._get_tasks', 'TaskHandler.body', 'ResultHandler._make_methods(on_ack,on_ready,on_state_change)',
              'ResultHandler._process_result', 'ResultHandler.handle_event', 'Pool._maintain_pool', 'Pool._join_exited_workers',
              'Pool._repopulate_pool', 'Pool._avail_index', 'Pool.on_job_process_lost', 'Pool.mark_as_worker_lost',
              'ApplyResult.*', 'MapResult.*', 'IMapIterator.*', 'IMapUnorderedIterator.*', 'billiard.einfo.ExceptionInfo']
POOL_ASSUME = [
    'environment stubs (harness/world.py): fake Process/Popen/SimpleQueue/Value/Event context, integer clock bound to pool.monotonic, '
    'pool._kill/os.killpg/os.getpgid/time.sleep bound to the world',
    'pool.human_status / error / debug / warning replaced by recorders (str.format on a symbolic int realises it)',
    'worker stubs emit exactly the message grammar established for the real Worker.workloop under C03: per task ACK then one READY; '
    'a worker dies only mid-task or between jobs',
    'pipes deliver whole messages in FIFO order (C13 owns framing)',
]

SPECS['C11'] = dict(
    level='other',
    explanation='Solver-based: (a) z3 proves ONE inductive step of restart_state.step, translated from its current source (AST -> SMT over the '
                'reals with explicit None flags), against a ghost-history oracle of the statement: raise iff the budget of the open window is '
                'used up, and the invariant (R = admissions since the window opened or the last reset, T = opening instant) is preserved - '
                'histories of any length, any budget >= 1, any window > 0; (b) CrossHair runs the real step() over bounded sequences with symbolic '
                'instants, budget, window and ack positions against the same oracle written over the history; (c) CrossHair runs the real '
                'supervision code in the stubbed process world: the limiter is consulted exactly once per abnormal exit and never for the '
                'clean/recycle statuses, before forking; a raise prevents the fork; a job acceptance resets the count; Supervisor.body installs '
                'the start-up burst limiter for exactly its first ten rounds.',
    functions=['billiard.common.restart_state.step', 'restart_state.__init__', 'billiard.pool.Pool._repopulate_pool', 'Pool._maintain_pool',
               'ResultHandler on_ack', 'Supervisor.body', 'TimeoutHandler._timed_out (clock kernel lemma)'],
    bounds={'quick': '(a) unbounded history (inductive), reals; (b) 4 steps, 1<=maxR<=3; (c) pool of 2, budget 1..2, 3 events (exit with status in {-9,0,155} / '
                     'clock advance / job acceptance)', 'thorough': '(b) 6 steps, maxR<=4; (c) 5 events'},
    outside=['floating-point rounding of instants', 'monotonic()==0 (T falsy): Linux CLOCK_MONOTONIC is time since boot',
             'max_restarts=None (no budget is configured: Pool.__init__ passes the raw argument to restart_state)'],
    assumptions=['time is an integer tick count inside CrossHair; the real-valued kernel is what the inductive lemma proves',
                 'monotonic() > 0 and non-decreasing'] + POOL_ASSUME,
    trusted_base=TRUST + ['vlib/smt.py AST->SMT interpreter (fails loudly outside its grammar)', 'cvc5 1.0.3 (cross-check)'],
    obligations=[
        smt('I-restart', 'vlib.smtlemmas', 'i_restart', 'inductive step of restart_state.step vs the ghost-history oracle over the reals (unbounded histories)'),
        smt('L-clock', 'vlib.smtlemmas', 'l_clock', '_timed_out(start, timeout) <=> both set and now >= start+timeout, over the reals (pays for the integer-time cut)'),
        ch('restart-bounded', 'harness.c11', 'h_restart', 'real step() vs ghost-history oracle, symbolic times/budget/window/acks',
           timeout=(150, 1200), quick_only=True),
        twin('restart-bounded', 'harness.c11', 'h_restart_twin', 'a run in which RestartFreqExceeded is raised exists', quick_only=True),
    ] + parts(ch('pool-side', 'harness.c11', 'h_pool_side', 'limiter consulted once per abnormal exit, never for clean/recycle, before the fork; raise prevents the fork; '
           'acceptance resets the count, also the acceptance of a job the caller has given up meanwhile (no longer tracked)', timeout=(300, 1500)), 6)
      + parts(twin('pool-side', 'harness.c11', 'h_pool_side_twin', 'a run in which the budget is exceeded exists (parts in which the remaining events cannot exceed it: a run admitting a replacement)'), 6) + [
        ch('ack-resets-the-configured-limiter', 'harness.c11', 'h_ack_limiter', 'threaded pool, the Supervisor thread played up to its first sleep as soon as it is started (before the result '
           'handler exists): the limiter held by the result handler\'s accept path is the configured one (max_restarts, max_restart_freq) and an accepted job resets its count',
           timeout=(200, 900), nontrivial_witness=True),
        ch('startup-burst', 'harness.c11', 'h_burst', 'Supervisor.body: restart_state(10*processes, 1) for exactly the first ten rounds, then the configured limiter',
           timeout=(200, 900), nontrivial_witness=True),
    ] + parts(ch('restart-bounded-t', 'harness.c11', 'h_restart', 'same, 6 steps, split on the first three ack flags',
                 timeout=(150, 1500), thorough_only=True), 8)
      + parts(twin('restart-bounded-t', 'harness.c11', 'h_restart_twin', 'a raising run exists in this part', thorough_only=True), 8),
)

SPECS['C04'] = dict(
    level='other',
    explanation='Solver-based: CrossHair executes the real pool supervision and result-dispatch code inside a stubbed process world; '
                'exit status, clock advances, lost-worker timeout and the order of ticks / result handling / worker progress are '
                'solver variables; a monitor written from the statement checks who is reported lost, when, and that the pool is restored.',
    functions=POOL_FUNCS,
    bounds={'quick': 'pool of 2; 4 events after the death, each preceded by a clock advance in [0,205]; status in [-64,255]; '
                     'lost_worker_timeout in [1,100]; kinds apply/map/imap/imap_unordered',
            'thorough': 'same with 5 events'},
    outside=['more than two workers / more than two concurrently running jobs', 'real processes and pipes', 'float clocks'],
    assumptions=POOL_ASSUME + ['A-drain: a message already in the result pipe is read before lost_worker_timeout elapses'],
    trusted_base=TRUST,
    obligations=(
        parts(ch('mid-task-death', 'harness.c04', 'h_mid', 'worker dies mid-task with any status: its job and only its job is lost, '
                 'not before the timeout, reported on every handle kind, pool restored; also when the pool itself had told the worker to leave (shrink)', timeout=(240, 1500)), 16)
        + parts(twin('mid-task-death', 'harness.c04', 'h_mid_twin', 'a run in which the loss is reported exists'), 16)
        + parts(ch('exit-after-work', 'harness.c04', 'h_after', 'worker exits between jobs with any status (result handled before or '
                   'after): nothing is ever reported lost and the job completes with its real result', timeout=(240, 1500)), 4)
        + parts(twin('exit-after-work', 'harness.c04', 'h_after_twin', 'a run in which the worker exits exists'), 4)
        + [smt('human-status-total', 'harness.c04', 'v_human_status', 'stub validation: the real common.human_status (replaced by a recorder in the pool world) is total on exit codes 0..255 and '
               'signals 1..64, named or not, and names the number: the supervisor calls it while reaping and while building the WorkerLostError', kind='validate')]
        + [ch('death-after-close', 'harness.c07', 'h_death_after_close', '"rather than leaving the caller waiting forever" also once the pool is closed: a worker dies in task code '
              'after close(): exactly its job fails with WorkerLostError, the other job keeps its result', timeout=(300, 1500)),
           twin('death-after-close', 'harness.c07', 'h_death_after_close_twin', 'join() returns in some such run')]
    ),
)

WORKER_FUNCS = ['billiard.pool.Worker.workloop (statement-instrumented from current source)', 'Worker.__call__', 'Worker._do_exit',
                'Worker._make_child_methods', 'Worker._make_protected_receive', 'Worker._make_recv_method',
                'Worker._ensure_messages_consumed', 'billiard.common._shutdown_cleanup', 'billiard.pool.soft_timeout_sighandler',
                'billiard.einfo.ExceptionInfo', 'billiard.pool.MaybeEncodingError']
WORKER_ASSUME = [
    'worker-side stubs (harness/workerh.py): request/result/syn queues as scripted FIFOs, os._exit raising a private exception, '
    'time.sleep and mem_rss recorders, after_fork (closing descriptors, installing real signal handlers) skipped',
    'a signal handler runs between two statements of workloop or inside a stub call (symbolic crash point); '
    'the instrumentation is validated against the original function on concrete scripts every run',
    'traceback text formatting replaced by a constant (C12 owns it)',
]

SPECS['C03'] = dict(
    level='other',
    explanation='Solver-based: CrossHair executes the real Worker.workloop over scripted queues with symbolic task outcomes, quota, '
                'SYN answers (ACK/NACK after silence) and consumed-counter, and checks the message grammar from the statement; the '
                'parent side (accept callback before result callback, owner recorded, NACK for a cancelled job) runs the real '
                'ResultHandler/ApplyResult code.',
    functions=WORKER_FUNCS + ['billiard.pool.ApplyResult._ack', 'ResultHandler on_ack/on_ready'],
    bounds={'quick': '3 tasks per script, outcomes {return, raise Exception, raise BaseException, unserialisable}, quota 0..3, '
                     'NACK/ACK per task after 0..2 silent polls for the first job, answered at once for the others; two jobs with the first answer after 0..70 silent polls', 'thorough': '4 tasks, outcomes {return, raise} in the handshake scripts, 0..2 / 0..1 silent polls; slow answer after 0..130 polls'},
    outside=['real pipes and pickling of arbitrary results', 'more than 4 tasks per worker life'],
    assumptions=WORKER_ASSUME,
    trusted_base=TRUST,
    obligations=[
        smt('instrumentation-valid', 'harness.c03', 'v_instrumentation', 'instrumented workloop == original on concrete scripts', kind='validate'),
    ] + parts(ch('worker-protocol', 'harness.c03', 'h_protocol', 'ACK(pid,time) before run, exactly one READY per job, quota, exit status, '
                 'consumption guard', timeout=(300, 1500)), 9)
      + parts(twin('worker-protocol', 'harness.c03', 'h_protocol_twin', 'a run ending with the recycle status exists'), 9)
      + [ch('worker-unpicklable', 'harness.c03', 'h_unpicklable', 'unserialisable result at any set of positions: exactly one '
            'READY(False, MaybeEncodingError) for that job, loop continues', timeout=(200, 900), nontrivial_witness=True)]
      + [ch('parent-ack', 'harness.c03', 'h_parent_ack', 'real ApplyResult._ack/_set with or without the handshake, cancelled or not, ACK before or after the result: a cancelled job is '
            'refused (NACK, no accept callback) only under the handshake; every other job has owner and acceptance time recorded, accept callback before result callback, ACK confirmed',
            timeout=(120, 600)),
         twin('parent-ack', 'harness.c03', 'h_parent_ack_twin', 'a refused job exists')]
      + [ch('worker-task-raises-SystemExit', 'harness.c03', 'h_sysexit', 'a task raising SystemExit(3) or KeyboardInterrupt itself, at any position: reported as '
            'that job\'s error (type and arguments), one READY, the worker takes the next job', timeout=(200, 900), nontrivial_witness=True)]
      + tiered(lambda: ch('worker-synack', 'harness.c03', 'h_synack', 'NACKed job never executed and not counted; ACKed job runs after the answer',
                          timeout=(300, 1500)), 4, 16)
      + tiered(lambda: twin('worker-synack', 'harness.c03', 'h_synack_twin', 'a run with a refused job exists'), 4, 16)
      + parts(ch('worker-synack-slow', 'harness.c03', 'h_synack_slow', 'the parent answers the ACK after any number of silent polls (beyond the '
            'loop\'s 60-poll warning): the accepted job still waits for its own answer, runs (or is refused) once, and the next job gets its '
            'own answer', timeout=(300, 1200)), 6)
      + parts(twin('worker-synack-slow', 'harness.c03', 'h_synack_slow_twin', 'a run with the latest answer of the part\'s range exists (the last part: later than the warning threshold)'), 6),
)

TIMEOUT_FUNCS = ['billiard.pool.TimeoutHandler.handle_event', 'TimeoutHandler.handle_timeouts', 'TimeoutHandler.on_hard_timeout',
                 'TimeoutHandler.on_soft_timeout', 'TimeoutHandler._trywaitkill', 'TimeoutHandler._process_by_pid',
                 'ApplyResult.handle_timeout', 'Pool.apply_async (limit precedence)']

_term = (parts(ch('worker-termination', 'harness.c03', 'h_termination', 'termination signal (any hooked number) delivered at any statement '
                  'boundary of the work loop or inside any stub call: no task body starts afterwards, exit callback once, DEATH notice, '
                  'exit with the handler status', timeout=(300, 1500)), 8)
         + parts(twin('worker-termination', 'harness.c03', 'h_termination_twin', 'a run in which the signal is delivered exists'), 8))


# C11, worker side of "workers that exit with the clean or recycle status never consume budget": the status a leaving worker announced
# with its DEATH notice (which the parent answers with TERM) is the status it exits with, whenever that TERM arrives
SPECS['C11']['obligations'] = list(SPECS['C11']['obligations']) + [dict(o, what='worker side: ' + o['what']) for o in _term]
SPECS['C11']['functions'] = list(SPECS['C11']['functions']) + ['billiard.pool.Worker._do_exit', 'Worker.__call__', 'billiard.common._shutdown_cleanup']

SPECS['C05'] = dict(
    level='other',
    explanation='Solver-based: CrossHair executes the real TimeoutHandler scan / hard-timeout / kill code and the real supervision code '
                'in the stubbed process world with symbolic pool-level and per-job limits, clock advances, event order (scan, scan '
                'pre-empted by the result handler, result handling, worker completion), TERM obedience and process-group leadership; '
                'the worker side runs the real Worker.__call__/workloop with a termination signal at a symbolic crash point.',
    functions=TIMEOUT_FUNCS + POOL_FUNCS[:16] + WORKER_FUNCS,
    bounds={'quick': 'pool size 1..2; limits in [0,50] (0 = none); 3 events, each preceded by a clock advance in [0,105], last one a scan; '
                     'other job kinds map/imap/imap_unordered in the cache; worker: 2 tasks, crash point <= 90',
            'thorough': '4 events; worker: 3 tasks'},
    outside=['that the kernel delivers the signals and the process disappears', 'float clocks', 'more than 2 workers'],
    assumptions=POOL_ASSUME + WORKER_ASSUME + ['a worker that obeys TERM is gone within the 0.1 s wait; one that does not is killed by KILL'],
    trusted_base=TRUST,
    obligations=(
        parts(ch('hard-limit', 'harness.c05', 'h_hard', 'job fails with TimeLimitExceeded(H) at the first scan with now >= accept+H, '
                 'H = job limit else pool limit; TERM then KILL if it lingers; nothing before; late result ignored; pool restored and '
                 'serves a later job', timeout=(300, 1500)), 8)
        + parts(twin('hard-limit', 'harness.c05', 'h_hard_twin', 'a run reaching the expiry branch exists'), 8)
        + parts(ch('limits-on-a-replacement-worker', 'harness.c05', 'h_replaced', 'a worker of the initial set exits (cleanly / killed) and is replaced before the job is '
                   'taken by the replacement: soft signal, TERM/KILL and TimeLimitExceeded reach the process that runs the job now', timeout=(300, 1500)), 8)
        + parts(twin('limits-on-a-replacement-worker', 'harness.c05', 'h_replaced_twin', 'a run reaching an expiry branch on the replacement exists'), 8)
        + parts(ch('hard-limit-after-close', 'harness.c06b', 'h_hard_after_close', 'threaded pool: the limit of a job still running at close() expires during shutdown - the scanner thread '
                   '(which runs on until terminate()) fails it with TimeLimitExceeded and signals its worker; a job finishing inside its limit keeps its result', timeout=(300, 1500)), 8)
        + parts(twin('hard-limit-after-close', 'harness.c06b', 'h_hard_after_close_twin', 'a run in which the limit expires during shutdown exists'), 8)
        + [ch('two-jobs-callback-preemption', 'harness.c05b', 'h_two_jobs', 'two jobs past their limit; the timed-out job\'s timeout callback (user code inside the scan) lets the '
              'result handler process the other job\'s pending result: that job keeps its result and its worker is not signalled', timeout=(300, 1500)),
           twin('two-jobs-callback-preemption', 'harness.c05b', 'h_two_jobs_twin', 'the callback fires in some run')]
        + parts(ch('other-kinds', 'harness.c05', 'h_others', 'map/imap/imap_unordered jobs on a pool with default limits: every scan '
                   'returns, no signal, never timed out, job completes', timeout=(200, 900)), 6)
        + parts(twin('other-kinds', 'harness.c05', 'h_others_twin', 'the scans are reached'), 6)
        + [smt('instrumentation-valid', 'harness.c03', 'v_instrumentation', 'instrumented workloop == original on concrete scripts', kind='validate')]
        + _term
    ),
)

SPECS['C06'] = dict(
    level='other',
    explanation='Solver-based: CrossHair executes the real scan / soft-timeout code in the stubbed process world with symbolic pool and '
                'job soft limits, a job hard limit, clock advances and event order including a scan pre-empted by the result handler; '
                'the worker side delivers the real soft_timeout_sighandler at a symbolic crash point inside the real work loop.',
    functions=TIMEOUT_FUNCS + WORKER_FUNCS,
    bounds=SPECS['C05']['bounds'],
    outside=['signal delivery by the kernel', 'a soft signal that reaches the worker after its task returned (race inherent to signals)'],
    assumptions=POOL_ASSUME + WORKER_ASSUME,
    trusted_base=TRUST,
    obligations=(
        parts(ch('soft-limit', 'harness.c05', 'h_soft', 'SIG_SOFT_TIMEOUT sent exactly once, at the first scan with now >= accept+S and before '
                 'the hard path took the job, S = job soft limit else pool default, callback soft=True/timeout=S; never for a job whose '
                 'result was processed (also when the result handler runs between snapshot and check)', timeout=(300, 1500)), 16)
        + parts(twin('soft-limit', 'harness.c05', 'h_soft_twin', 'a run reaching the soft-expiry branch exists'), 16)
        + parts(ch('limits-on-a-replacement-worker', 'harness.c05', 'h_replaced', 'the job runs on a worker that replaced one of the initial set: the soft signal reaches the '
                   'process that runs the job now, once, with the callback', timeout=(300, 1500)), 8)
        + parts(twin('limits-on-a-replacement-worker', 'harness.c05', 'h_replaced_twin', 'a run reaching an expiry branch on the replacement exists'), 8)
        + parts(ch('threaded-shutdown', 'harness.c06b', 'h_threaded_shutdown', 'threaded pool: the scanner thread (its own handle_timeouts generator) and the result handler\'s '
              'shutdown phase (real finish_at_shutdown after close()) together send the soft signal exactly once to a job that outlives its limit, with one callback; the '
              'task that catches it still has its value delivered', timeout=(300, 1500)), 8)
        + parts(twin('threaded-shutdown', 'harness.c06b', 'h_threaded_shutdown_twin', 'a run in which the limit expires during shutdown exists'), 8)
        + parts(ch('worker-soft', 'harness.c03', 'h_soft', 'handler runs inside task j: SoftTimeLimitExceeded seen by task j only; a task '
                   'that catches it has its value delivered; other jobs unaffected', timeout=(300, 1500)), 6)
        + parts(twin('worker-soft', 'harness.c03', 'h_soft_twin', 'a run with the signal inside a task exists'), 6)
        + [smt('instrumentation-valid', 'harness.c03', 'v_instrumentation', 'instrumented workloop == original on concrete scripts', kind='validate')]
        + [ch('after-fork-signal-order', 'harness.c03', 'h_after_fork', '"raised inside the process running that job": real Worker.after_fork with a recording signal table - the soft-limit handler is '
              'installed after the user initializer ran (an initializer that resets SIGUSR1, as Celery\'s does, must not leave the child with the default action, which would kill it)',
              timeout=(300, 1500), nontrivial_witness=True)]
    ),
)

SPECS['C01'] = dict(
    level='other',
    explanation='Solver-based: CrossHair drives the real pool (submission, task feeding, result dispatch, supervision, terminate_job) in the '
                'stubbed process world through a symbolic event vector (worker takes / finishes / dies with any status, duplicate and late '
                'messages, result-handler turns, ticks with clock advances, a failing send at a symbolic index) and a monitor checks after '
                'every event: outcome stable once observable, callbacks at most once, outcome is the job\'s own or a justified pool-made '
                'failure, and at quiescence every accepted job is resolved.',
    functions=POOL_FUNCS + ['Pool.terminate_job', 'ApplyResult._set_terminated'],
    bounds={'quick': 'pool of 2; job A = apply, job B in {apply, map(2 chunks), imap_unordered(2 items)}; 5 events from the menu; '
                     'statuses in [-15,3]; one raising part at a symbolic position; failing send at index 0..2',
            'thorough': '6 events'},
    outside=['more than 2 jobs / workers', 'ordered imap (its loss reporting is finding F6 under C04)', 'real threads'],
    assumptions=POOL_ASSUME,
    trusted_base=TRUST,
    obligations=(
        parts(ch('dispatch', 'harness.c01', 'h_dispatch', 'take/finish/duplicate/late messages in any order: single stable own outcome, callbacks once, '
                 'all resolved at quiescence', timeout=(300, 1500)), 12)
        + parts(ch('faults', 'harness.c01', 'h_fault', 'workers die with any status mid-task or idle, ticks and clock advances interleaved: '
                   'WorkerLostError only for the job whose worker died holding it', timeout=(300, 1500)), 18)
        + parts(ch('raising-callback', 'harness.c01', 'h_cbraise', 'job A\'s success callback raises an exception the submitter asked to have propagated (callbacks_propagate): it leaves the result '
                   'handler\'s turn, the outcome exists all the same - stable, callbacks at most once also after duplicate / late messages and worker exits, the entry leaves the cache', timeout=(300, 1500)), 6)
        + parts(twin('raising-callback', 'harness.c01', 'h_cbraise_twin', 'a run in which the callback raises exists'), 6)
        + parts(twin('dispatch', 'harness.c01', 'h_dispatch_twin', 'a run handling a duplicate message exists'), 12)
        + parts(twin('faults', 'harness.c01', 'h_fault_twin', 'a run reporting a lost job exists'), 18)
        + parts(twin('terminate-job', 'harness.c01', 'h_term_twin', 'a run terminating a busy worker exists'), 12)
        + parts(ch('failing-input', 'harness.c01b', 'h_bad_input', 'a submission (imap / imap_unordered) whose input iterable fails after 0..2 items while the feeder reads it: the job '
                   'submitted before it (any kind, first job of the pool or not, queued / accepted / finished-unread) keeps its own outcome, the feeder survives, the items '
                   'already read are delivered', timeout=(300, 1500)), 4)
        + parts(twin('failing-input', 'harness.c01b', 'h_bad_input_twin', 'the feeder gets through the failing input in some run'), 4)
        + parts(ch('terminate-job', 'harness.c01', 'h_term', 'terminate_job on a busy worker, other workers exiting with any status before the same supervision pass: Terminated for exactly its job, a job whose worker merely died is lost, not terminated', timeout=(300, 1500)), 12)
        + parts(ch('send-failure', 'harness.c01', 'h_send', 'a task that cannot be written (symbolic index): the failure lands on that job and only it; '
                   'every job still resolves', timeout=(300, 1500)), 3)
        + parts(twin('send-failure', 'harness.c01', 'h_send_twin', 'the failing send is reached'), 3)
    ),
)

SPECS['C10'] = dict(
    level='other',
    explanation='Solver-based: (a) CrossHair proves one step of every LaxBoundedSemaphore operation from an arbitrary valid state '
                '(0<=value<=bound<=1000), so the bound holds for histories of any length; (b) CrossHair drives the real pool with '
                'put-locks in the stubbed process world through a symbolic event vector and checks conservation (bound-value = jobs '
                'in flight while no worker exits), blocking exactly at the bound, and all slots free at quiescence; (c) the thread '
                'races release||clear etc. are decided by the z3 BMC of the compiled methods.',
    functions=['billiard.pool.LaxBoundedSemaphore.acquire/release/grow/shrink/clear', 'Pool.apply_async (slot taken)',
               'ResultHandler on_ready (slot returned)', 'Pool._maintain_pool (slot returned on replacement)', 'Pool.grow/shrink'] + POOL_FUNCS,
    bounds={'quick': '(a) any 0<=value<=bound<=1000, clear with bound-value<=4; (b) pool of 2, <=3 apply jobs (+1 map job / failing send / '
                     'worker exits), 5 events', 'thorough': '6 events'},
    outside=['more than 2 slots in the pool scenarios', 'discard() (not in the property alphabet)'],
    assumptions=POOL_ASSUME + ['the blocking branch of acquire raises WouldBlock instead of sleeping (subclass of the real semaphore)'],
    trusted_base=TRUST,
    obligations=(
        [ch('sem-step', 'harness.c10', 'h_sem_step', 'one step of acquire/release/grow/shrink/clear from any valid state keeps 0<=value<=bound '
            'and has the documented effect (inductive: histories of any length)', timeout=(120, 600)),
         twin('sem-step', 'harness.c10', 'h_sem_step_twin', 'the capped release (value == bound) is reached')]
        + parts(ch('pool-slots', 'harness.c10', 'h_pool', 'conservation / blocking at the bound / all slots free at quiescence, histories of '
                   'submissions, takes, results, exits, ticks, a map job, a failing send, result callbacks (which see the slot free again, may raise a propagated exception), grow() followed by supervision passes', timeout=(300, 1500)), 6)
        + parts(twin('pool-slots', 'harness.c10', 'h_pool_twin', 'a run in which apply_async blocks exists'), 6)
        + [ch('overlapping-operations', 'harness.c10', 'h_overlap', 'two threads: shrink / grow / release instrumented at statement level from its current source, the other thread performing one whole '
              'release / acquire / grow / shrink at a solver-chosen point at which the semaphore\'s lock is free; from any valid state (1 <= value = bound - held <= bound <= 1000): afterwards '
              '0 <= value <= bound, the bound is the configured size and value = bound - slots held (no slot lost or invented)', timeout=(200, 900)),
           twin('overlapping-operations', 'harness.c10', 'h_overlap_twin', 'a release landing inside shrink() exists')]
        + [smt('race-release-release', 'harness.c10', 'ob_release_release', 'E2: release || release, every interleaving of attribute reads/writes and lock operations: value <= bound',
               replay_function='replay_race'),
           smt('race-release-grow', 'harness.c10', 'ob_release_grow', 'E2: release || grow', replay_function='replay_race'),
           smt('race-release-clear', 'harness.c10', 'ob_release_clear', 'E2: release || clear (the close() race)', replay_function='replay_race'),
           smt('race-clear-clear-release', 'harness.c10', 'ob_clear_clear_release', 'E2: clear || clear || release from value 0', replay_function='replay_race')]
    ),
)

SPECS['C09'] = dict(
    level='other',
    explanation='Solver-based: CrossHair drives the real supervision code (reap, repopulate, slot indices, grow, shrink) through a symbolic '
                'sequence of worker exits with any status, grow/shrink calls and ticks, and a recycling pool (per-child quota) through '
                'symbolic orders of takes, results, result handling and ticks for every job kind; the worker side of the quota and of the '
                'memory limit runs the real Worker.workloop.',
    functions=POOL_FUNCS + ['Pool.grow', 'Pool.shrink', 'Pool._iterinactive', 'Pool._worker_active'] + WORKER_FUNCS,
    bounds={'quick': 'pool of 3 (size 1..4 after grow/shrink), 3 events from {exit of worker k with status in {-9,0,155}, grow, shrink, tick}; recycling: pool of 2, quota 1..2, 3 parts, 5 events then run to completion',
            'thorough': '4 / 6 events'},
    outside=['real processes', 'pool sizes above 4'],
    assumptions=POOL_ASSUME + WORKER_ASSUME + ['a worker told to terminate while idle exits at once (C08 worker side)'],
    trusted_base=TRUST,
    obligations=(
        [ch('pool-size', 'harness.c09', 'h_size', 'after every tick: len(pool)==configured size, distinct slot indices, no dead worker kept, '
            'control tables match, slot bound == size', timeout=(300, 1500)),
         twin('pool-size', 'harness.c09', 'h_size_twin', 'a run with a shrink exists')]
        + parts(ch('recycling', 'harness.c09', 'h_recycle', 'per-child quota: no job lost, duplicated, failed or held up; consumed results are '
                   'credited to their sender so that a worker that reached its quota can leave without the 30 s guard', timeout=(300, 1500)), 8)
        + parts(twin('recycling', 'harness.c09', 'h_recycle_twin', 'a run in which a worker is recycled exists'), 8)
        + [smt('instrumentation-valid', 'harness.c03', 'v_instrumentation', 'instrumented workloop == original on concrete scripts', kind='validate'),
           ch('worker-memlimit', 'harness.c03', 'h_memlimit', 'memory limit: the loop returns EX_RECYCLE right after the task that crossed it, after its READY',
              timeout=(300, 1500), nontrivial_witness=True)]
        + [ch('worker-exit-status', 'harness.c03', 'h_exit_status', 'the whole life of a worker through the real Worker.__call__ / workloop / _do_exit without any signal, tasks that return, raise or call '
              'sys.exit(3) themselves, quota 0..n: the process exit status, the status given to the exit callback and the one in the DEATH notice are the recycle status exactly when the quota '
              'was reached and the clean status otherwise', timeout=(300, 1500), nontrivial_witness=True)]
        + parts(ch('worker-quota', 'harness.c03', 'h_protocol', 'at most N task bodies per worker, EX_RECYCLE after the consumption guard', timeout=(300, 1500)), 9)
    ),
)

SPECS['C13'] = dict(
    level='other',
    explanation='Solver-based: CrossHair executes the real framing / write-all / read-exactly / bounds-check code of billiard.connection with '
                'the kernel replaced by stubs bound through the write=/read= default arguments: every write accepts a symbolic number of '
                'bytes or fails with EINTR, every read returns a symbolic number of bytes, EINTR or end-of-stream at a symbolic cut '
                'position; offsets, sizes, maxlength and buffer sizes are symbolic; a second tier makes the payload LENGTH a solver '
                'variable up to 2**31+5 (abstract buffer) to cross the 16384-byte concatenation threshold and the framing limit.',
    functions=['billiard.connection._ConnectionBase.send_bytes', 'recv_bytes', 'recv_bytes_into', '_check_closed/_check_readable/_check_writable',
               '_bad_message_length', 'poll', 'Connection._send', 'Connection._recv', 'Connection._send_bytes', 'Connection._recv_bytes'],
    bounds={'quick': 'payload <= 3 bytes (two messages on the receive side), every read/write moves one byte or as much as possible, one EINTR at a symbolic call, cut at every '
                     'position; threshold tier: 0 <= n <= 2**31+5 with three symbolic partial writes',
            'thorough': 'payload <= 5 bytes, every fragmentation'},
    outside=['the kernel (real pipes/sockets), wait()/poll readiness', 'payload contents other than a fixed pattern (the code never inspects them)',
             'pickling in send()/recv()'],
    assumptions=['os.write accepts between 1 and len(buf) bytes or raises EINTR; os.read returns between 1 and min(wanted, available) bytes, '
                 'raises EINTR, or returns b"" once the peer closed', 'struct.pack("!i") replaced by a stand-in in the threshold tier only '
                 '(validated against struct on boundary values every run)'],
    trusted_base=TRUST,
    obligations=[
    ] + tiered(lambda: ch('send', 'harness.c13', 'h_send', 'bytes accepted by the kernel == header + payload[offset:offset+size], nothing else; invalid '
                          'offset/size rejected before any I/O', timeout=(300, 1500), nontrivial_witness=True), 8, 12) + tiered(
        lambda: ch('recv', 'harness.c13', 'h_recv', 'each message returned exactly, in order; clean EOF only at a boundary; a truncated message raises '
                   'and is never delivered', timeout=(300, 1500), nontrivial_witness=True), 12, 30) + tiered(
        lambda: ch('limits', 'harness.c13', 'h_limits', 'maxlength never exceeded, connection unreadable/closed afterwards; BufferTooShort carries the whole '
                   'message and leaves the buffer untouched; offsets validated before I/O', timeout=(300, 1500), nontrivial_witness=True), 8, 12) + [
    ] + parts(ch('send-buffer-kinds', 'harness.c13', 'h_send_kinds', '"from any bytes-like object": bytearray, memoryview, array(\'h\'), array(\'i\'), a two-dimensional byte view; byte length 0..4 (whole items), '
                 'offset -1..5, size none or -1..5 (byte counts): the wire carries header + exactly those bytes of the object, invalid offset/size rejected before any I/O', timeout=(200, 900)), 5)
      + parts(twin('send-buffer-kinds', 'harness.c13', 'h_send_kinds_twin', 'a send of >= 2 bytes from this kind of buffer exists'), 5)
      + parts(ch('into-buffer-kinds', 'harness.c13', 'h_into_kinds', 'recv_bytes_into a destination of each kind (0..8 bytes, offset -1..9, message of 0..5 bytes): the message is stored at the byte offset exactly as '
                 'received and its length returned, the rest of the destination untouched, BufferTooShort (whole message, destination untouched) iff it does not fit, the next message unaffected', timeout=(200, 900)), 5)
      + parts(twin('into-buffer-kinds', 'harness.c13', 'h_into_kinds_twin', 'a message of >= 3 bytes stored at a non-zero offset of this kind of destination exists'), 5) + [
        ch('send-reach', 'harness.c13', 'h_send_twin', 'a run with split writes and an EINTR retry exists', timeout=(120, 600), expect='refuted', env={'VERIF_PART': '7', 'VERIF_NPART': '8'}, quick_only=True),
        ch('recv-reach', 'harness.c13', 'h_recv_twin', 'a run delivering both messages over >= 5 reads exists', timeout=(120, 600), expect='refuted', env={'VERIF_PART': '11', 'VERIF_NPART': '12'}, quick_only=True),
        ch('socket-blocking-mode', 'harness.c13', 'h_socket_blocking', 'SocketListener.accept (after 0..2 EINTRs) and SocketClient with no / zero / positive socket default timeout: the '
           'socket handed to Connection is in blocking mode (the framing code relies on blocking reads and writes)', timeout=(120, 600), nontrivial_witness=True),
        ch('state', 'harness.c13', 'h_state', 'closed or wrong-direction handles rejected before any I/O', timeout=(120, 600), nontrivial_witness=True),
        ch('threshold', 'harness.c13', 'h_threshold', 'symbolic length across 16384 and 2**31-1: header+payload exactly once, struct.error beyond the limit',
           timeout=(120, 600)),
        twin('threshold', 'harness.c13', 'h_threshold_twin', 'the separate-header branch (n > 16384) is reached'),
        smt('struct-standin', 'harness.c13', 'v_struct', 'FakeStruct == struct on boundary values', kind='validate'),
    ],
)

SPECS['C14'] = dict(
    level='other',
    explanation='Solver-based inductive step: CrossHair builds an arbitrary heap satisfying the representation invariant (symbolic cut points, '
                'live/free pattern, optional second arena, optional pending free), runs ONE real malloc(size) or free(block) with symbolic '
                'arguments - with a garbage-collection-triggered free delivered at a symbolic point inside the operation, or with the lock '
                'already held - and asserts the invariant (exact partition, alignment, merged neighbours, index consistency) and the '
                'property of the returned block afterwards; one step from every valid state covers histories of any length. z3 proves '
                'the arithmetic cut (L-roundup) on the current source, cross-checked with cvc5.',
    functions=['billiard.heap.Heap.__init__', 'Heap.malloc', 'Heap.free', 'Heap._malloc', 'Heap._free', 'Heap._absorb', 'Heap._free_pending_blocks',
               'Heap._roundup (SMT lemma)', 'BufferWrapper.__init__', 'BufferWrapper.create_memoryview'],
    bounds={'quick': 'one arena of <= 5 units of 8 bytes cut into 3 blocks (all 5 live/free patterns without adjacent free blocks); page size scaled to 64; '
                     'request 0..48 bytes; a GC free at call 1..3 of _malloc/_free/_absorb, or a block already on the pending list',
            'thorough': '<= 9 units, requests <= 100, optionally a second arena 16|24 free|24'},
    outside=['mmap contents and real page size (scaled: sizes are realised by hashing of dict keys)', 'true multi-threaded timing beyond '
             'the lock-held flag and the re-entrant GC free', 'pre-states with more than 3 blocks per arena (reached only through the bounded histories)'],
    assumptions=['Arena replaced by a record (size, serial, bytearray)', 'Heap._roundup replaced by ((n+a-1)//a)*a inside CrossHair, justified by L-roundup',
                 'a pre-state that no real history reaches is still a valid state of the invariant (the invariant is what is proved inductive)'],
    trusted_base=TRUST + ['cvc5 1.0.3 binary (cross-check of the lemma)'],
    obligations=(
        [smt('L-roundup', 'vlib.smtlemmas', 'l_roundup', 'for a in {8,64,4096,65536}, all 0<=n<2**63: (n+mask)&~mask == ((n+a-1)//a)*a, >= n, < n+a, multiple of a')]
        + tiered(lambda: ch('malloc-step', 'harness.c14', 'h_malloc', 'one malloc from any valid state: invariant kept; block >= size, 8-aligned, inside its arena; '
                            'no new arena if a free extent fits; GC free inside is deferred', timeout=(300, 1500)), 5, 10)
        + tiered(lambda: twin('malloc-step', 'harness.c14', 'h_malloc_twin', 'a run with a GC free inside malloc exists'), 5, 10)
        + tiered(lambda: ch('free-step', 'harness.c14', 'h_free', 'one free from any valid state: invariant kept; merged with both free neighbours; with the '
                            'lock held it is only deferred and the next operation absorbs it', timeout=(300, 1500)), 5, 10)
        + tiered(lambda: twin('free-step', 'harness.c14', 'h_free_twin', 'a run with the lock already held exists'), 5, 10)
        + [ch('histories', 'harness.c14', 'h_history', 'malloc,malloc,free,malloc,free from the empty heap, sizes and freed blocks chosen by the solver from a table: invariant, no overlap, '
              'sizes honoured (reachability evidence for the invariant)', timeout=(300, 1500), nontrivial_witness=True),
           ch('buffer-wrapper', 'harness.c14', 'h_wrapper', 'two live BufferWrappers: size <= block, view inside the block, disjoint storage, writes do not leak',
              timeout=(300, 1500), nontrivial_witness=True)]
    ),
)

SPECS['C12'] = dict(
    level='other',
    explanation='Solver-based for the depth bound: CrossHair runs the real einfo.Traceback constructor on a synthetic traceback chain of '
                'symbolic length with a symbolic frame limit and checks the number and order of frames kept and the truncation marker. '
                'The unserialisable-result and base-exception clauses run in the worker harness (real Worker.workloop, symbolic scripts). '
                'Type/args/text/traceback stability over pickle round trips is a concrete validation run (pickle is C code: every symbolic '
                'payload is realised, so the solver could only sample there).',
    functions=['billiard.einfo.Traceback.__init__', '_Frame.__init__', '_Code.__init__', '_Truncated', 'ExceptionInfo.__init__',
               'ExceptionWithTraceback.__reduce__', 'rebuild_exc', 'Worker.workloop (MaybeEncodingError path)'],
    bounds={'quick': 'chain length 1..8, frame limit 0..8; worker scripts of 3 tasks', 'thorough': 'chain length 1..14'},
    outside=['"for all exception types and argument tuples" and "unserialisable at any nesting depth": inside pickle (C); covered only by '
             'the concrete validation cases', 'recursion beyond the interpreter limit while the record is being built'],
    assumptions=WORKER_ASSUME,
    trusted_base=TRUST + ['pickle (C)'],
    obligations=[
        ch('depth-limit', 'harness.c12', 'h_depth', 'copy keeps min(L, max_frames+2) frames in order, marker iff longer, total <= max_frames+3', timeout=(300, 1500)),
        twin('depth-limit', 'harness.c12', 'h_depth_twin', 'a truncated copy exists'),
        smt('roundtrip-concrete', 'harness.c12', 'v_roundtrip', 'real exceptions (7 types) x depths incl. beyond the frame limit and 3000 frames: depth bounded, '
            'format_exception accepts the record, type/args/text/traceback unchanged by 3 pickle round trips; __reduce__ shape of the stand-ins', kind='validate'),
        ch('worker-exception-with-constructor-arguments', 'harness.c03', 'h_ctor_exception', 'a task raising an exception whose class needs constructor arguments beyond .args: the '
           'record the worker sends can be unpickled by the parent (every worker message is pickled and unpickled for real)', timeout=(200, 900), nontrivial_witness=True),
        ch('worker-unpicklable', 'harness.c03', 'h_unpicklable', 'unserialisable result at any set of positions: exactly one READY(False, MaybeEncodingError) '
           'for that job, the worker goes on', timeout=(200, 900), nontrivial_witness=True),
    ] + parts(ch('worker-exceptions', 'harness.c03', 'h_protocol', 'Exception / BaseException raised by a task is reported as that job\'s failure with '
                 'type and args intact; the loop continues', timeout=(300, 1500)), 9),
)

SPECS['C19'] = dict(
    level='other',
    explanation='Solver-based: CrossHair runs the real Popen.poll/wait with os.waitpid returning a symbolic (pid, status) / EINTR / ECHILD over '
                'successive polls, the real BaseProcess.start/join/is_alive/exitcode guards with symbolic creator and caller pids, and the '
                'real BaseProcess._bootstrap with run() returning, raising, or calling sys.exit(x) for symbolic x, composed with the kernel '
                'model (code & 0xff) << 8 and the decoder.',
    functions=['billiard.popen_fork.Popen.poll', 'Popen.wait', 'billiard.process.BaseProcess.start', 'join', 'is_alive', 'exitcode', '_bootstrap'],
    bounds={'quick': '3 successive polls over a script of 5 waitpid outcomes; all 16-bit statuses; exit codes -3..300; signals 1..64; forkserver: codes {0,1,2,3,77,255}, the 8 status bytes split at any position, EOF / partial data / read error',
            'thorough': '4 polls; forkserver: codes {0,1,2,3,77,255}, the 8 status bytes split at any position, EOF / partial data / read error'},
    outside=['fork/exec themselves, spawn and forkserver child start-up', 'the forkserver\'s sockets, descriptor passing and process creation themselves (its serving loop runs over a fake kernel)', 'join(timeout) wall-clock'],
    assumptions=['wait-status macros are pure-Python bit operations validated against os.W* on all 65536 statuses every run',
                 'waitpid without WUNTRACED never reports stopped/continued statuses', 'logging re-initialisation, after-fork hooks and '
                 'exit functions in _bootstrap are stubbed'],
    trusted_base=TRUST,
    obligations=[
        smt('waitstatus-model', 'harness.c19', 'v_waitstatus', 'stub validation', kind='validate'),
    ] + parts(ch('poll', 'harness.c19', 'h_poll', 'returncode None until a poll sees the own pid, the decoded status afterwards, never changes, child never waited twice',
                 timeout=(300, 1500)), 5)
      + parts(twin('poll', 'harness.c19', 'h_poll_twin', 'a run reporting a signal death exists'), 5) + [
        ch('exit-roundtrip', 'harness.c19', 'h_exit_roundtrip', 'exit(n) -> n for 0..255, signal s (with or without core) -> -s for 1..64', timeout=(200, 900), nontrivial_witness=True),
        ch('wait', 'harness.c19', 'h_wait', 'timed wait returns None without reaping when the child did not end; otherwise the decoded status', timeout=(200, 900), nontrivial_witness=True),
        ch('guards', 'harness.c19', 'h_guards', 'start only once and only by the creator; alive/exitcode None until the end; after join not an active child',
           timeout=(300, 1500), nontrivial_witness=True),
        ch('wait-deadline', 'harness.c19', 'h_wait_deadline', 'the readiness wait under join(timeout): a non-positive timeout polls once without blocking, the kernel wait is never '
           'entered without a timeout or with more than was asked', timeout=(300, 1500), nontrivial_witness=True),
        ch('forkserver-poll', 'harness.c19', 'h_forkserver_poll', 'real popen_forkserver.Popen.poll + forkserver.read_unsigned over a scripted sentinel pipe: None (and no read) until the '
           'child has ended; the code the child wrote, however the 8 bytes are split; a non-zero status when the child was killed before writing all of it (EOF, '
           'partial data, read error); stable afterwards', timeout=(200, 900), nontrivial_witness=True),
        ch('forkserver-serve', 'harness.c19', 'h_forkserver_serve', 'real forkserver.main / _serve_one / write_unsigned over a fake kernel (signal table, listener, selector, fork returning 0 or a pid, '
           'descriptors, writes accepting any non-empty prefix): the new child restores the SIGCHLD disposition the server was started with before the process object runs (so that it can '
           'reap children of its own), has closed the server\'s descriptors, keeps the received descriptors apart, and writes its pid and then the exit code of the process object to the '
           'status pipe (no code when it failed before it had one: the parent reports 255); the server ignores SIGCHLD, closes the request connection and exits when the last client is gone',
           timeout=(200, 900)),
        twin('forkserver-serve', 'harness.c19', 'h_forkserver_serve_twin', 'a child whose status needed more than two writes exists'),
        ch('spawn-launch', 'harness.c19', 'h_spawn_launch', 'real popen_spawn_posix.Popen._launch over a fake kernel (fd table, pipes, inherited handles): the sentinel\'s only write end '
           'lives in the child (ready exactly when the child is gone), the child inherits its data pipe, the tracker fd and the handles asked for, the parent closes the rest and writes '
           'the preparation data', timeout=(120, 600), nontrivial_witness=True),
        ch('bootstrap', 'harness.c19', 'h_bootstrap', 'through the child branch of the real Popen._launch: return -> 0, exception -> 1, sys.exit(n) -> n, also when flushing stdout/stderr at exit fails (unwritable, detached, unimplemented, closed); n survives kernel + decoder for 0..255', timeout=(300, 1500), nontrivial_witness=True),
    ],
)

SPECS['C18'] = dict(
    level='other',
    explanation='Solver-based: CrossHair runs the real deliver_challenge / answer_challenge in both directions (the order used by Listener.accept '
                'and Client) over in-memory message pairs with symbolic keys, symbolic challenge bytes and symbolic hostile replies at each '
                'step; hmac.new is a stand-in injective on (zero-padding-normalised key, message).',
    functions=['billiard.connection.deliver_challenge', 'answer_challenge', 'Listener.__init__ (key type)', 'Listener.accept', 'Client'],
    bounds={'quick': 'keys of 1..2 bytes over {NUL, j, k}; equal or different challenges per direction; hostile replies: empty, one byte, the digest with '
                     'its last byte replaced, the digest plus a byte (byte from {right, right^1, right+1, 0, 255}); verdicts: #WELCOME# with one byte replaced likewise, truncated, extended',
            'thorough': 'same'},
    outside=['cryptographic strength of HMAC-MD5 (collision-freedom is assumed)', 'keys longer than the HMAC block size (hashed first)',
             'sockets; AuthenticationString pickling guard (process.py)'],
    assumptions=['hmac.new(key, msg).digest() is injective on (key without trailing NUL bytes, msg) - HMAC pads short keys with zeros',
                 'os.urandom returns arbitrary bytes'],
    trusted_base=TRUST,
    obligations=[
        ch('mutual', 'harness.c18', 'h_mutual', 'both sides finish iff the keys are equal; otherwise both raise AuthenticationError; challenge sent as generated, '
           'one fresh challenge per direction', timeout=(300, 1500)),
        twin('mutual', 'harness.c18', 'h_mutual_twin', 'a refused handshake exists'),
        ch('hostile-answer', 'harness.c18', 'h_hostile_answer', 'any reply other than the exact digest is answered #FAILURE# and raises', timeout=(300, 1500), nontrivial_witness=True),
        ch('hostile-verdict', 'harness.c18', 'h_hostile_verdict', 'the answering side completes only on the exact welcome message', timeout=(300, 1500), nontrivial_witness=True),
        ch('relay', 'harness.c18', 'h_relay', 'the client with two handshakes to one peer under way, the peer WITHOUT the key saying at each step arbitrary bytes or bytes it has seen on the other connection: '
           'Client() must not come out authenticated on either', timeout=(200, 900)),
        twin('relay', 'harness.c18', 'h_relay_twin', 'a run in which the client refuses the peer exists'),
        ch('key-type', 'harness.c18', 'h_keytype', 'str / int / bytearray keys raise TypeError before any handshake message', timeout=(120, 600), nontrivial_witness=True),
    ],
)

SPECS['C17'] = dict(
    level='model_checking',
    engine='E2 py2ts + z3 BMC',
    technique='bounded model checking (z3 bit-vectors) of the transition system compiled from the real Python source',
    explanation='Solver-based bounded model checking: the current source of synchronize.Condition.wait/notify/notify_all and '
                'Event.is_set/set/clear/wait is compiled (Python AST -> instruction list over semaphore and mutex operations) and z3 decides, '
                'over ALL interleavings at semaphore-operation granularity with timeouts firing at any step, that untimed waiters present '
                'before a notification are woken, notify wakes at most one, a timed-out wait returns False and leaves the condition '
                'consistent, no assertion of the real code fails, no deadlock, and Event results match the flag. Each unsat answer is '
                'accompanied by an unsat unwinding assertion and a sat reachability witness; witness and counterexample schedules are '
                'replayed step by step against the real classes in real threads.',
    functions=['billiard.synchronize.Condition.wait', 'Condition.notify', 'Condition.notify_all', 'Event.is_set', 'Event.set', 'Event.clear',
               'Event.wait', 'Lock/RLock/Semaphore/BoundedSemaphore.__init__ (CrossHair)'],
    bounds={'quick': 'Condition: 2 waiters (timed or not, symbolic) || 1 notifier doing 1 operation (notify/notify_all, symbolic), K=35 steps (2 operations, K=54, thorough only); '
                     'Event: {wait,wait,set}, {wait,set,clear}, {is_set,set,wait} from a clear event, {is_set,clear}, {wait,is_set,clear} from a set event, K=12..51; 6-bit counters; lock recursion depth 1',
            'thorough': 'plus 3 waiters || 1 operation (K=48)'},
    outside=['more threads / operations than listed', 'Condition.wait_for under interleavings (its loop and clock arithmetic are checked sequentially by CrossHair with wait() stubbed)', 'RLock recursion depth > 1 under interleavings (the level-by-level release/retake of wait() is checked sequentially)',
             'the kernel semaphore itself (trusted: mutual exclusion, counting, bounded release)'],
    assumptions=['semaphore model: acquire decrements if positive, non-blocking fails at zero, a timed blocking acquire may give up at any step at '
                 'which the value is zero, release increments; validated against the real SemLock on all single-thread sequences of length 5 every run',
                 'thread-local statements are fused into the preceding shared operation (scheduling points = semaphore/mutex operations)'],
    trusted_base=['z3 5.1.0', 'vlib/py2ts.py translator (fails loudly outside its grammar)', 'CPython _multiprocessing.SemLock', 'CrossHair 0.0.110 (wrappers)'],
    obligations=[
        smt('semaphore-model', 'harness.c17', 'v_semaphore_model', 'semaphore model == real SemLock on short sequences', kind='validate'),
        smt('conformance', 'harness.c17', 'v_conformance', 'solver-found witness runs replay step by step on the real classes (model vs implementation)', kind='validate', timeout=(600, 1200)),
        smt('cond-2w-1op', 'harness.c17', 'ob_cond_2w_1op', 'W1-W7 on 2 waiters || notify/notify_all', timeout=(900, 3000), replay_function='replay'),
        smt('cond-2w-2ops', 'harness.c17', 'ob_cond_2w_2ops', 'W1-W7 on 2 waiters || two successive notifications (22 min)', timeout=(1500, 4000), replay_function='replay', thorough_only=True),
        smt('event-wait-wait-set', 'harness.c17', 'ob_event_wws', 'E1-E7', timeout=(900, 3000), replay_function='replay'),
        smt('event-wait-set-clear', 'harness.c17', 'ob_event_wsc', 'E1-E7', timeout=(900, 3000), replay_function='replay'),
        smt('event-isset-set-wait', 'harness.c17', 'ob_event_isw', 'E1-E7', timeout=(900, 3000), replay_function='replay'),
        smt('event-set:isset-clear', 'harness.c17', 'ob_event_set_ic', 'E1-E7 from a set event: clear() racing is_set() is not lost', timeout=(600, 2000), replay_function='replay'),
        smt('event-set:wait-isset-clear', 'harness.c17', 'ob_event_set_wic', 'E1-E7 from a set event: clear() racing wait() and is_set()', timeout=(900, 3000), replay_function='replay'),
        smt('cond-3w-1op', 'harness.c17', 'ob_cond_3w_1op', 'W1-W7 on 3 waiters', timeout=(3000, 7000), replay_function='replay', thorough_only=True),
        ch('fork-ownership', 'harness.c17', 'h_fork', 'every primitive created under the fork start method registers an after-fork hook that '
           'empties the child\'s ownership record (count 0, not mine) whatever the parent held at the fork: real SemLock.__init__ and C semaphore, '
           'the child played by running the newly registered hooks', timeout=(120, 600)),
        twin('fork-ownership', 'harness.c17', 'h_fork_twin', 'a run in which the parent holds the primitive at the fork exists'),
        ch('transfer-to-a-spawned-child', 'harness.c17', 'h_transfer', 'Lock/RLock/Semaphore/BoundedSemaphore/Condition/Event rebuilt from their pickled state (as a spawned child does): every '
           'part is the same kernel semaphore in the same role with the same kind and bound, and can be acquired/released through the copy', timeout=(120, 600)),
        twin('transfer-to-a-spawned-child', 'harness.c17', 'h_transfer_twin', 'a rebuilt primitive exists'),
        ch('wait-for', 'harness.c17', 'h_wait_for', 'real Condition.wait_for over a symbolic clock, the waits played by a stand-in (notified within the time asked for / timed out after at least '
           'that / spurious wake-ups, <= 3 waits): returns the predicate\'s own value, truthy iff the predicate held at an evaluation; every wait gets exactly the time left to the deadline '
           '(None without a timeout) and none is started once it has passed; gives up only at or after the deadline; the predicate is re-evaluated after every wake-up', timeout=(200, 900)),
        twin('wait-for', 'harness.c17', 'h_wait_for_twin', 'a run that needs two waits before the predicate holds exists'),
        ch('wait-recursive', 'harness.c17', 'h_wait_recursive', 'real Condition.wait under a lock held 0..4 times by the caller (RLock), recording stand-in semaphores, sleep ending woken / timed out / '
           'interrupted: announced once, every level released before the sleep with the caller\'s timeout, acknowledged once and every level retaken however the sleep ends; refused without '
           'touching anything when the lock is not owned', timeout=(120, 600)),
        twin('wait-recursive', 'harness.c17', 'h_wait_recursive_twin', 'an interrupted wait under a doubly held lock exists'),
        ch('wrappers', 'harness.c17', 'h_wrappers', 'Lock/RLock/Semaphore/BoundedSemaphore pass (kind, value, maxvalue) to SemLock as documented', timeout=(120, 600), nontrivial_witness=True),
    ],
)

SPECS['C02'] = dict(
    level='other',
    explanation='Solver-based: CrossHair runs the real map/starmap/imap/imap_unordered/apply code (chunking, result assembly, in-order release, '
                'length announcement, exception rebuild through a real pickle round trip) in the stubbed process world; input length, chunk '
                'size (explicit or defaulted), the set of raising positions and the order in which workers take/finish chunks and the result '
                'handler runs are solver variables; the oracle is the sequential map. z3 proves the chunk-tiling arithmetic for c<=64, n<=64.',
    functions=['billiard.pool.Pool._map_async', 'Pool._get_tasks', 'mapstar', 'starmapstar', 'MapResult.__init__/_set/_ack', 'IMapIterator._set/_set_length/next',
               'IMapUnorderedIterator._set', 'TaskHandler.body (set_length)', 'ApplyResult.get', 'billiard.einfo.ExceptionInfo/ExceptionWithTraceback/rebuild_exc'],
    bounds={'quick': 'n <= 3 items, chunk size 0(None)..2, pool of 1..2, at most one raising position, 3 symbolic scheduling events then run to completion',
            'thorough': 'n <= 4, chunk <= 4, any subset of raising positions, 5 events'},
    outside=['"arguments and results unchanged up to pickling" for arbitrary objects (pickle is C; payloads are tagged tuples)', 'pool sizes above 2'],
    assumptions=POOL_ASSUME + ['result payloads cross the fake pipe through pickle.loads(pickle.dumps(.))'],
    trusted_base=TRUST + ['pickle (C)'],
    obligations=(
        [smt('L-chunking', 'harness.c02', 'l_chunking', 'slices tile [0,n); slice count n//c+bool(n%c); defaulted chunk size >= 1')]
        + tiered(lambda: ch('sequential', 'harness.c02', 'h_seq', 'result == sequential map (values, order / multiset, exception type+args with remote '
                            'traceback, imap error at the failing position then the rest)', timeout=(400, 1800)), 20, 25)
        + tiered(lambda: twin('sequential', 'harness.c02', 'h_seq_twin', 'the job runs to completion'), 20, 25)
        + tiered(lambda: ch('blocking-consumer', 'harness.c02b', 'h_blocking', 'imap / imap_unordered consumer blocked in next() (no timeout) while results arrive in any '
                            'order: items in input order / same multiset, errors at their position, never a TimeoutError', timeout=(400, 1800), nontrivial_witness=True), 8, 12)
        + [ch('worker-task-raises-SystemExit', 'harness.c03', 'h_sysexit', 'worker side of "if the function raises ... re-raise that exception (same type and arguments)" for '
              'the exception types a work loop could mistake for its own shutdown: a task raising SystemExit(3) or KeyboardInterrupt is reported as that job\'s error', timeout=(200, 900),
              nontrivial_witness=True)]
    ),
)

SPECS['C07'] = dict(
    level='other',
    explanation='Solver-based: CrossHair runs the real close()/join() path - TaskHandler.body with its sentinels, ResultHandler.finish_at_shutdown, '
                '_join_exited_workers(shutdown=True), worker joins - in the stubbed process world with every job kind pending at a symbolic '
                'stage of progress; while the result handler sleeps in poll() a symbolically chosen worker moves. Checked: jobs offered after '
                'close are refused, one sentinel per worker and one for the result handler, join returns (budgeted stubs: exhausting the '
                'budget is a hang), every job has its real result, every worker exited, nobody waited out the 30 s consumption guard.',
    functions=['billiard.pool.Pool.close', 'Pool.join', 'TaskHandler.body', 'TaskHandler.tell_others', 'ResultHandler.finish_at_shutdown',
               'ResultHandler.on_stop_not_started', 'Pool._join_exited_workers', 'PoolThread.stop'] + POOL_FUNCS[:12],
    bounds={'quick': 'pool of 1..2; 3 apply jobs or one map/imap/imap_unordered of 3 parts; 3 events of progress before close()', 'thorough': '4 events'},
    outside=['that real threads stop and real children are reaped; wall-clock', 
             'the time-limit scanner thread'],
    assumptions=POOL_ASSUME + ['helper threads are played by the harness on one thread (feeder turn = real TaskHandler.body; workers move while the result handler polls)'],
    trusted_base=TRUST,
    obligations=(
        parts(ch('close-join', 'harness.c07', 'h_close_join', 'close() then join(): drains, refuses late jobs, sentinels, no hang, workers gone, no 30 s guard; also on a pool one of whose workers is a replacement, and on one that was grown after a replacement', timeout=(400, 1800)), 16)
        + parts(twin('close-join', 'harness.c07', 'h_close_join_twin', 'join() returns in some run'), 16)
        + parts(ch('close-join-recycling', 'harness.c07', 'h_close_join_recycling', 'a pool with a per-child quota of 1 closed with three jobs pending (more than its workers have quota left): every job '
                   'submitted before close() still gets its result and join() returns', timeout=(300, 1500), nontrivial_witness=True), 2)
        + [ch('death-after-close', 'harness.c07', 'h_death_after_close', 'a worker dies in task code after close(): exactly its job fails with WorkerLostError, the '
              'other job keeps its result, join() returns', timeout=(300, 1500)),
           twin('death-after-close', 'harness.c07', 'h_death_after_close_twin', 'join() returns in some such run'),
           ch('close-during-supervision', 'harness.c07', 'h_midtick', 'close() issued from on_process_down (between reaping and replacing) or from on_process_up (after the first replacement of a pass that replaces one or two workers): no worker is started '
              'afterwards, join() returns, the running job keeps its result', timeout=(300, 1500), env={'VERIF_PART': '0', 'VERIF_NPART': '2'}),
           ch('close-during-supervision/twin', 'harness.c07', 'h_midtick_twin', 'the callback fires in some run', timeout=(120, 600), expect='refuted',
              twin_of='close-during-supervision', env={'VERIF_PART': '0', 'VERIF_NPART': '2'})]
    ),
)

SPECS['C08'] = dict(
    level='other',
    explanation='Solver-based: worker side - CrossHair runs the real Worker.__call__/workloop/_do_exit with the real termination-signal handler '
                '(common._shutdown_cleanup) delivered at a symbolic crash point: any statement boundary of the work loop or any stub call (idle in '
                'the queue poll, sending ACK/READY, inside task code, inside the task\'s own exception handler, in the exit path); parent side - '
                'the real Pool.terminate/_terminate_pool/_help_stuff_finish and the Finalize wrapper on a pool with queued and running jobs of '
                'every kind at a symbolic stage of progress, with budgeted blocking stubs (exhausting a budget = hang); terminate_job through '
                'the C01 event machine.',
    functions=WORKER_FUNCS + ['billiard.pool.Pool.terminate', 'Pool._terminate_pool', 'Pool._help_stuff_finish', 'Pool._set_result_sentinel',
                              'ResultHandler.finish_at_shutdown', 'Pool.terminate_job', 'ApplyResult._set_terminated', 'util.Finalize.__call__'],
    bounds={'quick': 'worker: 2 tasks, crash point 0..72, any hooked signal number; parent: pool of 1..2, 3 apply jobs or a 3-part map/imap/imap_unordered, '
                     '3 events of progress before terminate()', 'thorough': 'worker: 3 tasks; parent: 4 events'},
    outside=['real thread shutdown and garbage-collection timing', 'task code that catches and discards SystemExit', 'a worker that cannot run Python '
             'signal handlers (blocked in C code)'],
    assumptions=POOL_ASSUME + WORKER_ASSUME + ['parent side: a worker that was sent TERM exits (that is exactly what the worker-side obligations establish)'],
    trusted_base=TRUST,
    obligations=(
        [smt('instrumentation-valid', 'harness.c03', 'v_instrumentation', 'instrumented workloop == original on concrete scripts', kind='validate')]
        + _term
        + parts(ch('terminate', 'harness.c07', 'h_terminate', 'terminate() returns within the stub budgets, no worker alive afterwards, results delivered '
                   'before the call unchanged, queues closed, second terminate() and the finalizer are no-ops; also on a pool one of whose workers is a replacement', timeout=(400, 1800)), 16)
        + parts(twin('terminate', 'harness.c07', 'h_terminate_twin', 'a run terminating busy workers exists'), 16)
        + [ch('terminate-signal', 'harness.c07', 'h_terminate_signal', 'real popen_fork.Popen.terminate over a recording os.kill: it sends common.TERM_SIGNAL - the signal the workers hook, '
              'also when a deployment remapped it (REMAP_SIGTERM) and workers ignore SIGTERM; a worker that is already gone is tolerated', timeout=(120, 600), nontrivial_witness=True)]
        + parts(ch('terminate-job', 'harness.c01', 'h_term', 'terminate_job on a busy worker (other workers may exit before the same supervision pass): Terminated for exactly its job', timeout=(300, 1500)), 12)
        + [ch('after-fork-signal-order', 'harness.c03', 'h_after_fork', 'real Worker.after_fork with a recording signal table: the termination handlers (and the soft-limit '
              'handler) are installed after the user initializer ran, so they win; parent pipe ends closed', timeout=(300, 1500), nontrivial_witness=True)]
        + [ch('terminate-threaded', 'harness.c07', 'h_terminate_threaded', 'threaded pool (helper threads played by the harness): terminate() with 0..2 jobs fed and possibly one job '
              'still with the task-feeder thread; the task queue\'s read lock is held by an idle worker until it is sent something: terminate() returns, no worker is alive, '
              'the feeder thread has ended', timeout=(300, 1500)),
           twin('terminate-threaded', 'harness.c07', 'h_terminate_threaded_twin', 'a run in which the feeder still had a job when terminate() came exists')]
        + [ch('terminate-during-supervision', 'harness.c07', 'h_midtick', 'terminate() issued from on_process_up (while replacements are being started): no further '
              'worker is started, every worker is gone afterwards', timeout=(300, 1500), env={'VERIF_PART': '1', 'VERIF_NPART': '2'}),
           ch('terminate-during-supervision/twin', 'harness.c07', 'h_midtick_twin', 'the callback fires in some run', timeout=(120, 600), expect='refuted',
              twin_of='terminate-during-supervision', env={'VERIF_PART': '1', 'VERIF_NPART': '2'})]
    ),
)

SPECS['C16'] = dict(
    level='other',
    technique='bounded symbolic execution (CrossHair) of the feeder and timeout paths + z3 BMC of JoinableQueue compiled from source',
    explanation='Solver-based: (a) CrossHair runs the real Queue._feed to completion over a scripted buffer (symbolic length, sentinel position and '
                'position of a broken pipe): pickles sent in buffer order, each once, under the write lock, writer closed at the sentinel; '
                '(b) CrossHair runs the real Queue.put/get timeout logic with a symbolic clock and symbolic answers of the capacity semaphore, '
                'reader lock and poll: Full iff no capacity, Empty only when the lock, the deadline or poll(remaining) says so, capacity released '
                'exactly once per item; (c) z3 model-checks JoinableQueue.put/task_done/join and Queue.get compiled from their current source '
                '(with the compiled Condition of C17 inlined) over all interleavings of producers, feeder, consumer and joiner, and (d) Queue.put of two threads racing on the start of the feeder thread.',
    functions=['billiard.queues.Queue._feed', 'Queue.put', 'Queue.get', 'JoinableQueue.put', 'JoinableQueue.task_done', 'JoinableQueue.join',
               'billiard.synchronize.Condition.wait/notify_all (inlined)'],
    bounds={'quick': '(a) <= 3 items; (b) timeout -1(None)..20, clock deltas 0..40; (c) capacity 1, 1 producer x 1 item || feeder || consumer (get, task_done[, one '
                     'task_done too many]) || joiner, K = 35..48; (d) two threads x one put on a fresh Queue of capacity 2, every interleaving of their semaphore/lock operations and reads/writes of _thread', 'thorough': '(a) <= 5 items; (c) 2 producers'},
    outside=['item identity and per-producer order across the pipe (FIFO of whole messages is C13\'s guarantee; buffer order is (a))',
             'item sizes larger than the pipe buffer; unpickled equality of arbitrary objects', 'more producers/consumers than listed'],
    assumptions=['the pipe delivers whole messages in order (C13)', 'the feeder thread of (c) is the two-step model "take from buffer, write to pipe" whose '
                 'real code is checked in (a)', 'semaphore model of C17'],
    trusted_base=TRUST + ['vlib/py2ts.py translator', 'pickle (C)'],
    obligations=[
        ch('feed', 'harness.c16', 'h_feed', 'real Queue._feed over a scripted buffer', timeout=(200, 900), nontrivial_witness=True),
        ch('put', 'harness.c16', 'h_put', 'Full iff the capacity semaphore is not granted; item buffered iff granted', timeout=(120, 600), nontrivial_witness=True),
        ch('get', 'harness.c16', 'h_get', 'Empty only when the reader lock, the deadline or poll(remaining time) says so; capacity released once per item; '
           'reader lock always released', timeout=(300, 1500), nontrivial_witness=True),
        smt('joinable-1', 'harness.c16', 'ob_jq_1', 'capacity never exceeded; join returns only after every earlier put was matched; everybody finishes; counters restored',
            timeout=(900, 3000), replay_function='replay_jq'),
        smt('joinable-full', 'harness.c16', 'ob_jq_full', 'a full JoinableQueue (capacity 1, one counted item waiting): a non-blocking put racing with the consumer that takes and finishes the waiting item - '
            'a put refused with Full leaves no unfinished task behind (join returns once the consumer is done), an accepted one never exceeds the capacity', timeout=(900, 3000), replay_function='replay_jq'),
        smt('joinable-overcount', 'harness.c16', 'ob_jq_1_overcount', 'task_done beyond the count raises ValueError', timeout=(900, 3000), replay_function='replay_jq'),
        smt('first-put-race', 'harness.c16', 'ob_q_feeder', 'two threads racing on the first put of a plain Queue (real Queue.put compiled, _thread a shared '
            'attribute, Queue._start_thread sliced from its source): exactly one feeder thread is started and neither item is dropped by a second start',
            timeout=(600, 1200), replay_function='replay_jq'),
        ch('simplequeue-transfers-are-locked', 'harness.c16', 'h_sq_locked', 'what the model-checked SimpleQueue scenario assumes of every transfer, on the real send_payload / get_payload with a payload whose '
           'length is a solver variable (0..2**31): one send of exactly that object while the write lock is held, one receive while the read lock is held, both locks released afterwards, also '
           'when the transfer fails', timeout=(120, 600), nontrivial_witness=True),
        smt('simplequeue', 'harness.c16', 'ob_simplequeue', 'SimpleQueue ("a locked pipe"): 2 producers || 2 consumers over the real put/get/send_payload/get_payload, a message '
            'transfer being two steps (header, body): no writer or reader ever gets inside another one\'s message, everybody finishes, every message is taken once',
            timeout=(900, 3000), replay_function='replay_jq'),
        smt('joinable-2', 'harness.c16', 'ob_jq_2', 'same with two producers', timeout=(3000, 7000), replay_function='replay_jq', thorough_only=True),
    ],
)

SPECS['C20'] = dict(
    level='other',
    explanation='Solver-based: CrossHair runs the real SyncManager / Server / BaseProxy code over an in-process transport registered through '
                'managers.listener_client (one client send+recv = one turn of the real Server.handle_request / serve_client on the same thread, '
                'messages deep-copied in transit) through a symbolic history of proxy operations (method calls with symbolic arguments, proxy '
                'copies as pickling makes them, proxy drops, a client with a wrong key) and compares every result and exception with a local '
                'twin object, the server refcount with the number of live proxies, and the referent lifetime with the last release.',
    functions=['billiard.managers.BaseManager.get_server/_create', 'Server.handle_request', 'Server.serve_client', 'Server.create', 'Server.incref', 'Server.decref',
               'Server.number_of_objects', 'BaseProxy.__init__/_connect/_callmethod/_incref/_decref/_getvalue', 'RebuildProxy', 'dispatch', 'convert_to_error'],
    bounds={'quick': 'one list or dict referent (plus a re-handed-out list and a lock-like referent), 2 steps from {method call (3 methods, argument 0..2), copy a proxy, drop a proxy, wrong-key client}', 'thorough': '3 steps'},
    outside=['sockets and one-thread-per-client atomicity (rests on the GIL)', 'real finaliser timing', 'the other registered types (Namespace, Value, Array, '
             'Lock, Queue ...: same dispatch path, different referents)', 'the challenge-response itself (C18)'],
    assumptions=['deliver_challenge/answer_challenge replaced by key comparison', 'proxies are released explicitly (their finaliser callback is invoked)'],
    trusted_base=TRUST,
    obligations=parts(ch('proxy-history', 'harness.c20', 'h_history', 'proxied calls == local twin (values and exception types), state equal, refcount == live proxies, '
                         'referent kept while proxies exist and disposed after the last, unexposed method refused, wrong key refused', timeout=(400, 1800),
                         nontrivial_witness=True), 12)
    + [ch('shared-referent-and-locks', 'harness.c20', 'h_shared_and_locks', 'a typeid whose callable returns an already tracked object: two proxies, one released, the '
          'other still works and the referent lives until the last is gone; lock-like referent: acquire(blocking, timeout) reaches the referent with exactly '
          'the caller\'s arguments and returns what the local call returns', timeout=(300, 1500)),
       twin('shared-referent-and-locks', 'harness.c20', 'h_shared_and_locks_twin', 'the scenarios are reached'),
    ] + parts(ch('other-types', 'harness.c20', 'h_types', 'Namespace, Value, Array, Event, Queue, Lock, BoundedSemaphore and Iterator (the proxy a method listed in method_to_typeid hands back, here of a generator) proxies: histories of operations with symbolic arguments '
                 'return or raise what the same operations on a local object of the registered class do, state equal after every step; referent disposed after the proxy',
                 timeout=(300, 1500)), 8)
      + parts(twin('other-types', 'harness.c20', 'h_types_twin', 'a whole history runs'), 8) + [
       ch('thread-affine-referent', 'harness.c20', 'h_affine', 'a referent that must be released by the server thread that acquired it (what RLock/Condition are; the server serves '
          'each connection in its own thread): acquire, release an unrelated proxy at any point, release - the proxy behaves like the local object, i.e. the client thread '
          'keeps its one connection while it holds proxies', timeout=(300, 1200)),
       twin('thread-affine-referent', 'harness.c20', 'h_affine_twin', 'a run releasing the unrelated proxy while the referent is held exists'),
       ch('proxies-in-a-forked-child', 'harness.c20', 'h_fork_child', 'a child forked while proxies exist (its whole life through the real BaseProcess._bootstrap: registry '
          'cleared, real after-fork hooks, target using the inherited proxy, real exit function): the child\'s copies are counted by the server, the child never '
          'talks on a connection the parent opened (nor the parent on the child\'s), the child\'s exit releases exactly its references, the referent lives on '
          'for the parent and is disposed of after the parent\'s last proxy', timeout=(300, 1200)),
       twin('proxies-in-a-forked-child', 'harness.c20', 'h_fork_child_twin', 'a child that wrote through the inherited proxy and exited with 0 exists')],
)


# C15 stays NOT APPLICABLE (see NOT_APPLICABLE above): what follows is a supplementary bounded test that is NOT claimed in MANIFEST.json -
# below the choice of scenario every run is concrete (ctypes/mmap are C), i.e. it enumerates concrete runs, which this task's technique
# explicitly does not count as deciding a property.  It is kept because it is cheap and catches slips in sharedctypes.py (initialisation,
# sizes, lock bracketing of the generated accessors); its report goes to supplementary/, not evidence/.
SPECS['C15'] = dict(
    claimed=False,
    level='other',
    technique='NOT a solver-based decision: CrossHair only enumerates the scenario choices, every run below a choice is concrete',
    explanation='Supplementary, unclaimed: bounded histories of RawValue/RawArray/Value/Array creations and releases over the real heap (initial '
                'value incl. zero-fill of reused blocks, size = type x length, no storage shared between live objects, a write never changes '
                'another object) and every accessor of the synchronised wrappers (one acquire/release of the object\'s own lock around the access, '
                'also when it raises; same result and state as a plain ctypes object; default lock re-entrant and per object).',
    functions=['billiard.sharedctypes.RawValue', 'RawArray', 'Value', 'Array', '_new_value', 'rebuild_ctype', 'synchronized', 'make_property (generated code)',
               'Synchronized', 'SynchronizedArray', 'SynchronizedString', 'billiard.heap.BufferWrapper'],
    bounds={'quick': 'histories of 4 steps over 8 creation recipes + 2 releases; 3 wrapper kinds x 6 accesses x 4 indices x 10 values', 'thorough': '5 steps'},
    outside=['a write made in a child process is visible in the parent and vice versa (mmap/fork)', 'no lost update across processes under the lock (kernel semaphore)',
             'Structure types'],
    assumptions=['a private Heap per run'],
    trusted_base=TRUST + ['ctypes', 'mmap'],
    obligations=[
    ] + parts(ch('objects', 'harness.c15', 'h_objects', 'initial value / zero fill, size, isolation over creation-release histories (split on the first creation)', timeout=(300, 1500)), 8)
      + parts(twin('objects', 'harness.c15', 'h_objects_twin', 'a history in which a released block is handed out again exists'), 8) + [
        ch('wrapper-locking', 'harness.c15', 'h_locking', 'accessors bracketed by the object\'s own lock, results equal a plain ctypes object', timeout=(300, 1500), nontrivial_witness=True),
        ch('default-lock', 'harness.c15', 'h_default_lock', 'lock=True/None: own re-entrant lock; lock=False: raw object; a non-lock is refused', timeout=(120, 600), nontrivial_witness=True),
    ],
)

"""Runs the obligations of one property, decides the verdict, writes evidence."""
import concurrent.futures as cf
import hashlib
import json
import os
import random
import shutil
import subprocess
import sys
import tempfile
import time

HERE = os.path.dirname(os.path.dirname(os.path.abspath(__file__)))
PY = sys.executable
REPO = os.environ.get('VERIF_REPO', '/repo')
EXIT_HARNESS_ERROR = 3


def _env(tier, extra=None):
    env = dict(os.environ)
    env['VERIF_TIER'] = tier
    env['VERIF_REPO'] = REPO
    env['PYTHONPATH'] = HERE
    env['PYTHONDONTWRITEBYTECODE'] = '1'
    env['PYTHONHASHSEED'] = '0'
    env.pop('BILLIARD_VERIF', None)
    if extra:
        env.update(extra)
    return env


def _sub(argv, tier, limit, extra_env=None):
    try:
        p = subprocess.run(argv, cwd=HERE, env=_env(tier, extra_env),
                           stdout=subprocess.PIPE, stderr=subprocess.STDOUT,
                           timeout=limit)
        return p.returncode, p.stdout.decode('utf8', 'replace')
    except subprocess.TimeoutExpired as exc:
        out = exc.stdout.decode('utf8', 'replace') if exc.stdout else ''
        return 'timeout', out


def run_obligation(ob, tier, work):
    kind = ob['kind']
    out = os.path.join(work, ob['name'].replace('/', '_') + '.json')
    t0 = time.time()
    tmo = ob.get('timeout', (120, 1200))
    tmo = tmo[1] if tier == 'thorough' else tmo[0]
    if kind == 'ch':
        argv = [PY, '-m', 'vlib.chworker', 'analyze', ob['module'],
                ob['function'], str(tmo), out]
        rc, txt = _sub(argv, tier, tmo * 1.5 + 120, ob.get('env'))
    elif kind in ('smt', 'validate'):
        argv = [PY, '-m', 'vlib.smtworker', ob['module'], ob['function'], out]
        rc, txt = _sub(argv, tier, tmo * 1.5 + 120, ob.get('env'))
    else:
        raise ValueError(kind)
    res = None
    if os.path.exists(out):
        try:
            with open(out) as f:
                res = json.load(f)
        except Exception:
            res = None
    if res is None:
        res = {'status': 'unknown' if rc == 'timeout' else 'error',
               'messages': ['worker produced no result (rc=%s)' % rc,
                            txt[-2000:]]}
    res['wall_s'] = round(time.time() - t0, 3)
    res['name'] = ob['name']
    res['kind'] = kind
    return res


def native_replay(module, function, cex, tier, work, extra_env=None):
    argsfile = tempfile.mktemp(dir=work, suffix='.args.json')
    out = tempfile.mktemp(dir=work, suffix='.replay.json')
    with open(argsfile, 'w') as f:
        json.dump(cex, f)
    argv = [PY, '-m', 'vlib.chworker', 'replay', module, function, argsfile, out]
    rc, txt = _sub(argv, tier, 300, extra_env)
    if os.path.exists(out):
        with open(out) as f:
            return json.load(f)
    return {'violates': None, 'error': 'replay produced no result: ' + txt[-1500:]}


def save_replay(pid, ob, cex, rep, tier):
    d = os.path.join(os.environ.get('VERIF_REPLAY_DIR', os.path.join(HERE, 'replays')), pid)
    os.makedirs(d, exist_ok=True)
    blob = json.dumps([ob['module'], ob['function'], cex, ob.get('env', {})], sort_keys=True)     # parts of one obligation differ in env only
    digest = hashlib.sha1(blob.encode()).hexdigest()[:10]
    path = os.path.join(d, '%s-%s.json' % (ob['function'], digest))
    with open(path, 'w') as f:
        json.dump({'property': pid, 'obligation': ob['name'], 'kind': ob['kind'],
                   'module': ob['module'], 'function': ob.get('replay_function', ob['function']),
                   'tier': tier, 'env': ob.get('env', {}),
                   'cex': cex, 'tag': rep.get('tag'), 'exception': rep.get('exception'),
                   'trace': rep.get('trace', [])}, f, indent=1)
    return path


def load_known(pid):
    path = os.path.join(HERE, 'known_findings.json')
    try:
        with open(path) as f:
            data = json.load(f)
    except FileNotFoundError:
        return []
    return [e for e in data.get('findings', []) if e.get('property') == pid]


def run_property(pid, spec, tier, seed):
    t_start = time.time()
    work = tempfile.mkdtemp(prefix='vp-%s-' % pid, dir=os.environ.get('VERIF_SCRATCH', '/var/tmp'))
    obligations = [o for o in spec['obligations']
                   if (tier == 'thorough' and not o.get('quick_only')) or (tier == 'quick' and not o.get('thorough_only'))]
    order = list(obligations)
    random.Random(seed).shuffle(order)
    # longest first helps wall time; stable w.r.t. the seed otherwise
    order.sort(key=lambda o: -(o.get('timeout', (120, 1200))[1 if tier == 'thorough' else 0]))
    jobs = int(os.environ.get('VERIF_JOBS', '16'))
    results = {}
    lines = []
    try:
        with cf.ThreadPoolExecutor(max_workers=jobs) as ex:
            futs = {ex.submit(run_obligation, o, tier, work): o for o in order}
            for fut in cf.as_completed(futs):
                o = futs[fut]
                results[o['name']] = fut.result()

        violations = []
        harness_errors = []
        inconclusive = []
        discharged = 0
        nontrivial = 0
        evaluations = 0
        queries = 0
        solver_time = 0.0
        samples = []
        per_ob = []
        by_name = {o['name']: o for o in obligations}
        for o in obligations:
            r = results[o['name']]
            expect = o.get('expect', 'confirmed')
            st = r.get('status')
            evaluations += int(r.get('num_paths', 0) or 0) + int(r.get('solver_queries', 0) or 0) + int(r.get('cases', 0) or 0)
            queries += int(r.get('solver_queries', 0) or 0)
            solver_time += float(r.get('solver_time_s', 0) or 0)
            verdict = None
            if expect == 'confirmed':
                if st == 'confirmed':
                    verdict = 'HOLDS-WITHIN-BOUNDS'
                elif st == 'refuted':
                    cex = r.get('cex')
                    if cex is None and o['kind'] in ('smt', 'validate'):
                        # a lemma over the current source text refuted by both solvers, or a concrete run against the real
                        # code that failed: the obligation itself is the replay (./check run <PROP> --only <name>)
                        rep = {'tag': '%s:%s' % (pid, o['name']), 'exception': None,
                               'trace': [str(m)[:2000] for m in r.get('messages', [])] + [json.dumps(r.get('detail'), default=str)[:4000]]}
                        path = save_replay(pid, o, {'args': [tier], 'kwargs': {}, 'rerun': './check run %s --only %s' % (pid, o['name'])}, rep, tier)
                        verdict = 'VIOLATION'
                        violations.append((o, path, rep))
                    elif cex is None:
                        verdict = 'HARNESS-ERROR'
                        harness_errors.append((o, 'counterexample could not be parsed: %s' % r.get('cex_text')))
                    else:
                        rep = native_replay(o['module'], o.get('replay_function', o['function']), cex, tier, work, o.get('env'))
                        if rep.get('violates'):
                            path = save_replay(pid, o, cex, rep, tier)
                            verdict = 'VIOLATION'
                            violations.append((o, path, rep))
                        else:
                            verdict = 'HARNESS-ERROR'
                            harness_errors.append((o, 'counterexample %s does not reproduce natively: %s' % (json.dumps(cex), rep)))
                elif st == 'error':
                    verdict = 'HARNESS-ERROR'
                    harness_errors.append((o, '; '.join(str(m)[-1500:] for m in r.get('messages', []))))
                else:
                    verdict = 'INCONCLUSIVE'
                    inconclusive.append((o, st))
            else:  # reachability twin: must be refuted
                if st == 'refuted':
                    verdict = 'TWIN-REFUTED'
                    if r.get('cex') is not None:
                        samples.append({'obligation': o['name'], 'witness': r['cex']})
                elif st == 'error':
                    verdict = 'HARNESS-ERROR'
                    harness_errors.append((o, '; '.join(str(m)[-1500:] for m in r.get('messages', []))))
                else:
                    verdict = 'TWIN-NOT-REFUTED'
                    inconclusive.append((o, 'twin %s' % st))
            r['verdict'] = verdict
        # an obligation counts as discharged when it holds; as non-trivial when
        # in addition its reachability twin(s) were refuted (or it has none and
        # declares itself a lemma with its own sat-witness)
        twin_ok = {}
        for o in obligations:
            if o.get('twin_of'):
                ok = results[o['name']]['verdict'] == 'TWIN-REFUTED'
                twin_ok.setdefault(o['twin_of'], []).append(ok)
        for o in obligations:
            r = results[o['name']]
            if o.get('expect', 'confirmed') != 'confirmed':
                continue
            if r['verdict'] == 'HOLDS-WITHIN-BOUNDS':
                oks = twin_ok.get(o['name'])
                if oks is not None and not all(oks):
                    r['verdict'] = 'INCONCLUSIVE'
                    inconclusive.append((o, 'vacuity twin not refuted'))
                    continue
                discharged += 1
                if oks or r.get('nontrivial_witness') or o.get('nontrivial_witness'):
                    nontrivial += 1
        for o in obligations:
            r = results[o['name']]
            per_ob.append({
                'name': o['name'], 'kind': o['kind'], 'function': '%s.%s' % (o['module'], o['function']),
                'expect': o.get('expect', 'confirmed'), 'status': r.get('status'), 'verdict': r.get('verdict'),
                'paths': r.get('num_paths'), 'exhausted': r.get('exhausted'),
                'solver_queries': r.get('solver_queries'), 'solver_time_s': r.get('solver_time_s'),
                'wall_s': r.get('wall_s'), 'what': o.get('what'), 'bounds': o.get('bounds'),
                'detail': r.get('detail'),
            })
            for s in (r.get('samples') or [])[:2]:
                samples.append({'obligation': o['name'], 'case': s})

        # known findings: re-run their stored replays
        known_lines = []
        for ent in load_known(pid):
            if ent.get('status') != 'known':
                continue
            rp = ent.get('replay')
            if not rp:
                continue
            rep = native_replay(rp['module'], rp['function'], rp['cex'], tier, work, rp.get('env'))
            if rep.get('violates'):
                known_lines.append('KNOWN-FINDING: property=%s %s' % (pid, ent['what']))
            else:
                known_lines.append('NOTE: listed finding %s no longer reproduces (property=%s): %s'
                                   % (ent.get('id'), pid, ent['what']))

        n_expect = sum(1 for o in obligations if o.get('expect', 'confirmed') == 'confirmed')
        wall = round(time.time() - t_start, 2)
        ev = {
            'property_id': pid,
            'tier': tier,
            'seed': seed,
            'level': spec.get('level', 'other'),
            'coverage': {
                'explanation': spec['explanation'],
                'evaluations': max(evaluations, 1),
                'distinct_nontrivial': nontrivial,
                'rule': 'one case = one obligation (a CrossHair harness over the real functions, a z3 BMC query or an SMT lemma); it is '
                        'counted as non-trivial only if it was exhausted/unsat AND its reachability twin (same harness, verdict negated on '
                        'the interesting branch) was refuted by the solver, or the lemma has a sat witness of its own; evaluations = '
                        'paths explored + SMT queries + stub-validation cases',
                'samples': samples[:12] or [{'obligation': per_ob[0]['name']}],
                'obligations': n_expect,
                'discharged': discharged,
                'checker_cmd': './check run %s --tier %s' % (pid, tier),
                'trusted_base': spec.get('trusted_base', []),
                'exhaustive': False,
                'functions_encoded': spec.get('functions', []),
                'bounds': spec.get('bounds', {}).get(tier, spec.get('bounds')),
                'outside_bounds': spec.get('outside', []),
                'solver_queries': queries,
                'solver_time_s': round(solver_time, 2),
                'per_obligation': per_ob,
                'inconclusive': [{'obligation': o['name'], 'why': why} for o, why in inconclusive],
                'harness_errors': [{'obligation': o['name'], 'why': str(why)[:3000]} for o, why in harness_errors],
                'known_findings_reported': known_lines,
                'repo': REPO,
            },
            'assumptions': spec.get('assumptions', []),
            'wall_s': wall,
            'violations': len(violations),
        }
        if spec.get('level') == 'model_checking':
            ev['coverage']['states'] = max(1, sum(int(results[o['name']].get('states', 0) or 0) for o in obligations))
            ev['coverage']['transitions'] = max(1, sum(int(results[o['name']].get('transitions', 0) or 0) for o in obligations))
            ev['coverage']['traces_validated_against_impl'] = sum(int(results[o['name']].get('traces_validated', 0) or 0) for o in obligations) + len(violations)
            ev['coverage']['states_note'] = 'states/transitions count symbolic state vectors and transition-relation disjuncts of the unrolled BMC formulas (each stands for all concrete states/steps at that depth)'
        # unclaimed supplementary checks (spec['claimed'] is False: C15) keep their report out of evidence/
        evdir = os.environ.get('VERIF_EVIDENCE_DIR', os.path.join(HERE, 'evidence' if spec.get('claimed', True) else 'supplementary'))    # (overridden only by tools/ when checking scratch copies)
        os.makedirs(evdir, exist_ok=True)
        with open(os.path.join(evdir, pid + '.json'), 'w') as f:
            json.dump(ev, f, indent=1)

        for l in known_lines:
            print(l)
        for o, why in inconclusive:
            print('INCONCLUSIVE property=%s obligation=%s (%s)' % (pid, o['name'], why))
        for o, why in harness_errors:
            print('HARNESS-ERROR property=%s obligation=%s: %s' % (pid, o['name'], str(why)[:1500]))
        for o, path, rep in violations:
            print('VIOLATION property=%s replay=%s' % (pid, path))
            print('  obligation=%s tag=%s exception=%s' % (o['name'], rep.get('tag'), rep.get('exception')))
        print('%s tier=%s obligations=%d discharged=%d nontrivial=%d inconclusive=%d violations=%d paths+queries=%d solver=%.1fs wall=%.1fs'
              % (pid, tier, n_expect, discharged, nontrivial, len(inconclusive), len(violations), evaluations, solver_time, wall))
        if violations:
            return 1
        if harness_errors:
            return EXIT_HARNESS_ERROR
        return 0
    finally:
        shutil.rmtree(work, ignore_errors=True)


def replay_file(path):
    with open(path) as f:
        rp = json.load(f)
    work = tempfile.mkdtemp(prefix='vp-replay-', dir=os.environ.get('VERIF_SCRATCH', '/var/tmp'))
    try:
        if rp.get('kind', 'ch') == 'ch':
            rep = native_replay(rp['module'], rp['function'], rp['cex'], rp.get('tier', 'quick'), work, rp.get('env'))
        else:
            rep = native_replay(rp['module'], rp['function'], rp['cex'], rp.get('tier', 'quick'), work, rp.get('env'))
        print(json.dumps(rep, indent=1))
        if rep.get('violates'):
            print('REPRODUCED property=%s tag=%s' % (rp.get('property'), rep.get('tag')))
            return 1
        print('NOT-REPRODUCED property=%s' % rp.get('property'))
        return 0
    finally:
        shutil.rmtree(work, ignore_errors=True)
